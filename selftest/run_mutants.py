"""Engine self-test (DESIGN 2.12b): apply deliberately broken bodies to a scratch
copy of /repo/xrspatial (outside /repo and /verif, removed afterwards) and check
that the property's check reports a violation (exit 1).  Also runs the check on
an unmodified scratch copy (must exit 0).

usage: python3-vt selftest/run_mutants.py [Cxx ...] [-j N]
"""
import json, os, shutil, subprocess, sys, tempfile, concurrent.futures as cf

HERE = os.path.dirname(os.path.abspath(__file__))
VERIF = os.path.dirname(HERE)
MUTANTS = json.load(open(os.path.join(HERE, "mutants.json")))


def run_one(m):
    d = tempfile.mkdtemp(prefix="pyvc-mut-")
    try:
        shutil.copytree("/repo/xrspatial", os.path.join(d, "xrspatial"), ignore=shutil.ignore_patterns("__pycache__", "tests", "datasets"))
        if m.get("old") is not None:
            p = os.path.join(d, m["file"])
            s = open(p).read()
            cnt = s.count(m["old"])
            if cnt == 0:
                return m, "mutant-does-not-apply", ""
            if m.get("nth") is not None:
                parts = s.split(m["old"])
                k = m["nth"]
                s = m["old"].join(parts[:k + 1]) + m["new"] + m["old"].join(parts[k + 1:])
            else:
                s = s.replace(m["old"], m["new"], m.get("count", 1))
            if m.get("extra_old"):
                s = s.replace(m["extra_old"], m["extra_new"], 1)
            open(p, "w").write(s)
        env = dict(os.environ, PYVC_REPO=d, PYVC_OUT=d)
        cmd = ["python3-vt", "-m", "pyvc.check", m["property"], "--tier", "quick"] + (["--no-bounded"] if m.get("proof_only") else [])
        r = subprocess.run(cmd, cwd=VERIF, env=env, capture_output=True, text=True, timeout=3600)
        lines = [l for l in r.stdout.splitlines() if l.startswith(("VIOLATION", "FAILED", "UNDECIDED", "CHECKER", "KNOWN"))]
        return m, r.returncode, "\n".join(lines[:6]) + ("\n" + r.stderr[-500:] if r.returncode == 3 else "")
    finally:
        shutil.rmtree(d, ignore_errors=True)


def main():
    args = [a for a in sys.argv[1:] if not a.startswith("-")]
    j = 4
    if "-j" in sys.argv:
        j = int(sys.argv[sys.argv.index("-j") + 1]); args = [a for a in args if a != str(j)]
    ms = [m for m in MUTANTS if not args or m["property"] in args]
    ms = [dict(property=p, name="unchanged", old=None, expect=0) for p in sorted({m["property"] for m in ms})] + ms
    bad = 0
    with cf.ThreadPoolExecutor(j) as pool:
        for m, rc, out in pool.map(run_one, ms):
            exp = m.get("expect", 1)
            ok = rc in exp if isinstance(exp, list) else rc == exp
            bad += not ok
            print("%s %-4s %-45s rc=%s expected=%s" % ("ok  " if ok else "BAD ", m["property"], m["name"], rc, exp))
            if not ok or "-v" in sys.argv:
                print("     " + out.replace("\n", "\n     "))
    print("self-test: %d mutants, %d unexpected" % (len(ms), bad))
    sys.exit(1 if bad else 0)


if __name__ == "__main__":
    main()
