"""Run a property's check against a scratch copy of /repo with a patch applied (outside /repo and /verif, removed afterwards).
usage: python3-vt selftest/try_patch.py <patch.diff> <Cxx> [<Cyy> ...] [--quick|--thorough]"""
import os, shutil, subprocess, sys, tempfile
VERIF = os.path.dirname(os.path.dirname(os.path.abspath(__file__)))
args = [a for a in sys.argv[1:] if not a.startswith("--")]
tier = "thorough" if "--thorough" in sys.argv else "quick"
patch, props = args[0], args[1:]
d = tempfile.mkdtemp(prefix="pyvc-seed-")
rc_all = 0
try:
    shutil.copytree("/repo/xrspatial", os.path.join(d, "xrspatial"), ignore=shutil.ignore_patterns("__pycache__", "tests", "datasets"))
    r = subprocess.run(["patch", "-p1", "-s", "-i", os.path.abspath(patch)], cwd=d, capture_output=True, text=True)
    if r.returncode != 0:
        print("patch does not apply:", r.stdout, r.stderr)
        sys.exit(3)
    env = dict(os.environ, PYVC_REPO=d, PYVC_OUT=d)
    for p in props:
        r = subprocess.run(["python3-vt", "-m", "pyvc.check", p, "--tier", tier], cwd=VERIF, env=env, capture_output=True, text=True)
        lines = [l for l in r.stdout.splitlines() if l.startswith(("VIOLATION", "FAILED", "UNDECIDED", "CHECKER", "KNOWN", p))]
        print("== %s rc=%d" % (p, r.returncode))
        for l in lines[:8]:
            print("   " + l[:300])
        rc_all = max(rc_all, r.returncode)
finally:
    shutil.rmtree(d, ignore_errors=True)
sys.exit(rc_all)
