"""Confirm a seeded change independently: in a fresh scratch worktree of /repo (under /tmp, removed afterwards) check that
(1) the patch applies, (2) the existing tests of the touched modules (or the whole suite with --full) still pass,
(3) the demonstration exits non-zero with the patch and zero without.  Then store it under /verif/seeded/<id>/.
usage: python3-vt selftest/confirm_seed.py <id> <property> <patch.diff> <demo.py> "<what it needs to manifest>" [--full]"""
import json, os, shutil, subprocess, sys, time
VERIF = os.path.dirname(os.path.dirname(os.path.abspath(__file__)))
sid, prop, patch, demo, needs = sys.argv[1:6]
full = "--full" in sys.argv
wt = "/tmp/confirm_%s" % sid
subprocess.run(["git", "-C", "/repo", "worktree", "remove", "--force", wt], capture_output=True)
subprocess.run(["git", "-C", "/repo", "worktree", "add", "-q", wt, "HEAD"], check=True)
ran = []
try:
    def sh(cmd, **kw):
        r = subprocess.run(cmd, shell=True, cwd=wt, capture_output=True, text=True, **kw)
        ran.append({"cmd": cmd, "rc": r.returncode, "tail": (r.stdout + r.stderr)[-400:]})
        return r
    env = "PYTHONPATH=%s" % wt
    shutil.copy(demo, os.path.join(wt, "demo.py"))
    r0 = sh("%s /venv/bin/python demo.py" % env)
    r = sh("git apply %s" % os.path.abspath(patch))
    if r.returncode != 0:
        print("patch does not apply", r.stderr)
        sys.exit(2)
    touched = [l[6:].strip() for l in open(patch) if l.startswith("+++ b/")]
    tests = []
    for t in touched:
        base = os.path.basename(t)[:-3]
        cand = "xrspatial/tests/test_%s.py" % base
        if os.path.exists(os.path.join(wt, cand)):
            tests.append(cand)
    if full or not tests:
        rt = sh("/venv/bin/python -m pytest -q -p no:cacheprovider --timeout=900 --deselect xrspatial/tests/test_viewshed.py::test_viewshed 2>&1 | tail -3")
    else:
        rt = sh("/venv/bin/python -m pytest -q -p no:cacheprovider --timeout=900 %s 2>&1 | tail -3" % " ".join(tests))
    tests_ok = " failed" not in rt.stdout and "error" not in rt.stdout.lower()
    r1 = sh("%s /venv/bin/python demo.py" % env)
    ok = r0.returncode == 0 and r1.returncode != 0 and tests_ok
    print("demo without patch rc=%d, with patch rc=%d, tests ok=%s (%s)" % (r0.returncode, r1.returncode, tests_ok, rt.stdout.strip().splitlines()[-1:] ))
    if ok:
        d = os.path.join(VERIF, "seeded", sid)
        os.makedirs(d, exist_ok=True)
        shutil.copy(patch, os.path.join(d, "patch.diff"))
        shutil.copy(demo, os.path.join(d, "demo.py"))
        json.dump({"id": sid, "breaks_property": prop, "needs_to_manifest": needs, "touched": touched,
                   "confirmed": {"date": time.strftime("%Y-%m-%d"), "demo_rc_without_patch": r0.returncode, "demo_rc_with_patch": r1.returncode,
                                 "tests_pass_with_patch": tests_ok, "commands": ran}},
                  open(os.path.join(d, "meta.json"), "w"), indent=1)
        print("stored", d)
    sys.exit(0 if ok else 1)
finally:
    subprocess.run(["git", "-C", "/repo", "worktree", "remove", "--force", wt], capture_output=True)
