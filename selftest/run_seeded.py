"""usage: python3-vt selftest/run_seeded.py [-j N] [S28 S29 ...]
Run every seeded change in /verif/seeded against the check of the property it breaks (scratch copy of /repo with the
patch applied; /repo itself is not touched) and write seeded/RESULTS.json + a table for DESIGN.md.
usage: python3-vt selftest/run_seeded.py [-j N]"""
import json, os, re, shutil, subprocess, sys, tempfile, concurrent.futures as cf
VERIF = os.path.dirname(os.path.dirname(os.path.abspath(__file__)))
SEEDED = os.path.join(VERIF, "seeded")


def run(sid):
    meta = json.load(open(os.path.join(SEEDED, sid, "meta.json")))
    prop = meta["breaks_property"]
    d = tempfile.mkdtemp(prefix="pyvc-seed-")
    try:
        shutil.copytree("/repo/xrspatial", os.path.join(d, "xrspatial"), ignore=shutil.ignore_patterns("__pycache__", "tests", "datasets"))
        r = subprocess.run(["patch", "-p1", "-s", "-i", os.path.join(SEEDED, sid, "patch.diff")], cwd=d, capture_output=True, text=True)
        if r.returncode != 0:
            return sid, prop, "patch-does-not-apply", [], []
        env = dict(os.environ, PYVC_REPO=d, PYVC_OUT=d)
        r = subprocess.run(["python3-vt", "-m", "pyvc.check", prop, "--tier", "quick"], cwd=VERIF, env=env, capture_output=True, text=True)
        failed = re.findall(r"^FAILED (\S+) \[(\w+)\]", r.stdout, re.M)
        viol = [l for l in r.stdout.splitlines() if l.startswith("VIOLATION")]
        return sid, prop, r.returncode, failed, viol
    finally:
        shutil.rmtree(d, ignore_errors=True)


def main():
    j = int(sys.argv[sys.argv.index("-j") + 1]) if "-j" in sys.argv else 3
    sids = sorted(x for x in os.listdir(SEEDED) if os.path.isdir(os.path.join(SEEDED, x)))
    only = [a for a in sys.argv[1:] if a.startswith("S")]
    out = {}
    if only:
        # re-run a subset and merge into the stored results
        sids = [x for x in sids if any(x.startswith(o) for o in only)]
        rp = os.path.join(SEEDED, "RESULTS.json")
        if os.path.exists(rp):
            out = json.load(open(rp))
    with cf.ThreadPoolExecutor(j) as pool:
        for sid, prop, rc, failed, viol in pool.map(run, sids):
            proved = sorted({re.sub(r"~\d+$", "", f) for f, lab in failed if lab == "proved"})
            bounded = sorted({f for f, lab in failed if lab == "bounded"})
            replayed = any("no-failing-input-found" not in v for v in viol)
            out[sid] = {"property": prop, "exit": rc, "failed_obligations": proved[:6], "failed_standins": bounded, "replayed_input": replayed}
            print("%-40s %s rc=%s obligations=%d standins=%d replay=%s" % (sid, prop, rc, len(proved), len(bounded), replayed))
    json.dump(out, open(os.path.join(SEEDED, "RESULTS.json"), "w"), indent=1)
    bad = [s for s, v in out.items() if v["exit"] != 1]
    print("undetected:", bad)
    sys.exit(1 if bad else 0)


if __name__ == "__main__":
    main()
