from . import c18_trim  # noqa: F401
