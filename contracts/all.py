"""registers every contract.  Lemma modules need z3 and are skipped under the
repository's interpreter (native replay / bounded stand-ins only need contracts)."""
from . import c18_trim, c08_terrain, c13_spectral, c12_classify, c09_focal, c19_metrics, c02_zonal, c06_proximity, c14_astar, c05_viewshed, c15_polygonize, c17_local, c16_regions  # noqa: F401

try:
    import z3  # noqa: F401
    HAVE_Z3 = True
except ImportError:
    HAVE_Z3 = False
if HAVE_Z3:
    from . import c08_lemmas, c01_lemmas, c19_lemmas, c03_lemmas, xr_lemmas, c07_lemmas, c14_lemmas, c17_lemmas, c16_lemmas  # noqa: F401
