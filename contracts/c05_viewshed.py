"""C05 - geometric helpers of the viewshed sweep (the bounded line-of-sight oracle is built from these)."""
from pyvc.contract import Contract, LoopSpec

M = "xrspatial/viewshed.py"

Contract(M, "_compare", {"a": "float", "b": "float"}, result="int",
         ensures=["(result == -1) == (a < b)", "(result == 1) == (a > b and not (a < b))", "result == -1 or result == 0 or result == 1"],
         props=("C05",))

# ---- _calc_event_pos: CENTER -> the cell centre; ENTERING / EXITING -> the corner of the cell with the smallest / largest
# sweep angle as seen from the viewpoint (every corner lies counter-clockwise of the entering and clockwise of the exiting one)
_V = "(event_row != viewpoint_row or event_col != viewpoint_col)"
_CORNERS = [("event_row - 0.5", "event_col - 0.5"), ("event_row - 0.5", "event_col + 0.5"),
            ("event_row + 0.5", "event_col - 0.5"), ("event_row + 0.5", "event_col + 0.5")]
_rx, _ry = "vs_dx(result[1], viewpoint_col)", "vs_dy(result[0], viewpoint_row)"
_enter = " and ".join("cross2(%s, %s, vs_dx(%s, viewpoint_col), vs_dy(%s, viewpoint_row)) >= 0" % (_rx, _ry, cx, cy) for cy, cx in _CORNERS)
_exit = " and ".join("cross2(vs_dx(%s, viewpoint_col), vs_dy(%s, viewpoint_row), %s, %s) >= 0" % (cx, cy, _rx, _ry) for cy, cx in _CORNERS)
Contract(
    M, "_calc_event_pos",
    {"event_type": "int", "event_row": "int", "event_col": "int", "viewpoint_row": "int", "viewpoint_col": "int"},
    requires=["event_type == 1 or event_type == -1 or event_type == 0"],
    result=("float", "float"),
    ensures=[
        "event_type != 0 or (result[0] == event_row and result[1] == event_col)",
        "event_type == 0 or not %s or ((result[0] == event_row - 0.5 or result[0] == event_row + 0.5) and "
        "(result[1] == event_col - 0.5 or result[1] == event_col + 0.5))" % _V,
        "event_type != 1 or not %s or (%s)" % (_V, _enter),
        "event_type != -1 or not %s or (%s)" % (_V, _exit),
    ],
    props=("C05",),
    native={"opts": {"int_lo": -1, "int_hi": 4}},
)

# ---- _calculate_angle: sweep angle in [0, 2 pi), quadrant-correct
_Q = "event_x, event_y, viewpoint_x, viewpoint_y"
Contract(
    M, "_calculate_angle", {"event_x": "float", "event_y": "float", "viewpoint_x": "float", "viewpoint_y": "float"},
    requires=["isfinite(event_x) and isfinite(event_y) and isfinite(viewpoint_x) and isfinite(viewpoint_y)"],
    result="float",
    ensures=[
        "0 <= result and result < 2 * pi",
        "not (event_y == viewpoint_y and event_x > viewpoint_x) or result == 0",
        "not (event_x == viewpoint_x and event_y < viewpoint_y) or result == pi / 2",
        "not (event_y == viewpoint_y and event_x < viewpoint_x) or result == pi",
        "not (event_x == viewpoint_x and event_y > viewpoint_y) or result == pi * 3.0 / 2.0",
        "not (event_x > viewpoint_x and event_y < viewpoint_y) or (0 < result and result < pi / 2)",
        "not (event_x < viewpoint_x and event_y < viewpoint_y) or (pi / 2 < result and result < pi)",
        "not (event_x < viewpoint_x and event_y > viewpoint_y) or (pi < result and result < pi * 3.0 / 2.0)",
        "not (event_x > viewpoint_x and event_y > viewpoint_y) or (pi * 3.0 / 2.0 < result and result < 2 * pi)",
    ],
    props=("C05",), axioms=("pi", "atan_range", "atan_sign_strict"),
)

_G = {"elev": "float", "viewpoint_row": "int", "viewpoint_col": "int", "viewpoint_elev": "float", "ew_res": "float", "ns_res": "float"}
Contract(M, "_calc_event_grad", dict({"row": "float", "col": "float"}, **_G), result="float",
         requires=["isfinite(row) and isfinite(col) and isfinite(elev) and isfinite(viewpoint_elev) and isfinite(ew_res) and isfinite(ns_res)"],
         ensures=["same(result, spec_gradient(row, col, elev, viewpoint_row, viewpoint_col, viewpoint_elev, ew_res, ns_res))"],
         props=("C05",), axioms=("pi", "sqrt"))
Contract(M, "_calc_dist_n_grad", dict({"status_node_row": "int", "status_node_col": "int"}, **_G), result=("float", "float"),
         requires=["isfinite(elev) and isfinite(viewpoint_elev) and isfinite(ew_res) and isfinite(ns_res)"],
         ensures=["same(result[0], spec_dist2(status_node_row, status_node_col, viewpoint_row, viewpoint_col, ew_res, ns_res))",
                  "same(result[1], spec_gradient(status_node_row, status_node_col, elev, viewpoint_row, viewpoint_col, viewpoint_elev, ew_res, ns_res))"],
         props=("C05",), axioms=("pi", "sqrt"))

# ---- _get_vertical_ang: 0..180 degrees, 90 = level, from the elevation difference and the (squared) horizontal distance
Contract(
    M, "_get_vertical_ang", {"viewpoint_elev": "float", "distance_to_viewpoint": "float", "elev": "float"},
    requires=["isfinite(viewpoint_elev) and isfinite(elev) and isfinite(distance_to_viewpoint) and distance_to_viewpoint > 0"],
    result="float",
    ensures=[
        "0 <= result and result <= 180",
        "(result == 90) == (viewpoint_elev - elev == 0)",
        "not (viewpoint_elev - elev > 0) or same(result, atan(sqrt(distance_to_viewpoint) / (viewpoint_elev - elev)) * 180 / pi)",
        "not (viewpoint_elev - elev < 0) or same(result, atan(abs(viewpoint_elev - elev) / sqrt(distance_to_viewpoint)) * 180 / pi + 90)",
    ],
    props=("C05",), axioms=("pi", "sqrt", "atan_range", "atan_sign_strict"),
)

# ---- the status structure: array-based red-black tree augmented with the subtree maximum of the nodes' minimum gradients
_TT = {"tree_vals": "f2", "tree_nodes": "i2"}
_TSH = ["tree_vals.shape[0] == N and tree_vals.shape[1] == 8 and tree_nodes.shape[1] == 4 and N >= 2"]
_LETN = [("N", "tree_nodes.shape[0]")]

Contract(M, "_find_value_min_value", {"tree_vals": "f2", "node_id": "int"},
         lets=[("N", "tree_vals.shape[0]")],
         requires=["tree_vals.shape[1] == 8 and N >= 2", "tn_ptr_ok(node_id, N)",
                   "isfinite(tree_vals[node_id, 1]) and isfinite(tree_vals[node_id, 2]) and isfinite(tree_vals[node_id, 3])"],
         result="float", neg_index=True,
         ensures=["result <= tree_vals[node_id, 1] and result <= tree_vals[node_id, 2] and result <= tree_vals[node_id, 3]",
                  "result == tree_vals[node_id, 1] or result == tree_vals[node_id, 2] or result == tree_vals[node_id, 3]",
                  "same(result, tv_min_grad(tree_vals, node_id))"],
         props=("C05",))


def _unchanged_nodes(except_):
    # every pointer / colour cell other than the listed (node, field) pairs is as before
    ex = " or ".join("(v == nid(%s, N) and f == %d)" % (n, f) for n, f in except_)
    return "all((%s) or tree_nodes[v, f] == old(tree_nodes[v, f]) for v in range(0, N) for f in range(0, 4))" % ex


def rotate(fn, X, CH_DOWN, CH_UP):
    """left rotate: X = x, its right child y comes up (CH_UP = 2 right, CH_DOWN = 1 left); right rotate mirrored"""
    Y = "old(tree_nodes[%s, %d])" % (X, CH_UP)              # the child that comes up
    A = "old(tree_nodes[%s, %d])" % (X, CH_DOWN)            # X's other child stays
    B = "old(tree_nodes[%s, %d])" % (Y, CH_DOWN)            # the middle subtree changes parent
    C = "old(tree_nodes[%s, %d])" % (Y, CH_UP)
    P = "old(tree_nodes[%s, 3])" % X
    yv = "tree_nodes[%s, %d]" % (X, CH_UP)
    Contract(
        M, fn, dict(_TT, root="int", **{X: "int"}), lets=_LETN,
        requires=_TSH + [
            "tn_node_ok(%s, N) and tn_node_ok(%s, N) and %s != %s" % (X, yv, X, yv),
            "tn_ptr_ok(tree_nodes[%s, %d], N) and tn_ptr_ok(tree_nodes[%s, 3], N)" % (X, CH_DOWN, X),
            "tn_ptr_ok(tree_nodes[%s, %d], N) and tn_ptr_ok(tree_nodes[%s, %d], N)" % (yv, CH_DOWN, yv, CH_UP),
            # the four neighbours are other nodes (a tree): none of them is x or y
            "tree_nodes[%s, %d] != %s and tree_nodes[%s, %d] != %s" % (X, CH_DOWN, X, X, CH_DOWN, yv),
            "tree_nodes[%s, %d] != %s and tree_nodes[%s, %d] != %s" % (yv, CH_DOWN, X, yv, CH_DOWN, yv),
            "tree_nodes[%s, %d] != %s and tree_nodes[%s, %d] != %s" % (yv, CH_UP, X, yv, CH_UP, yv),
            "tree_nodes[%s, 3] != %s and tree_nodes[%s, 3] != %s" % (X, X, X, yv),
            "tree_nodes[%s, 3] == -1 or tree_nodes[%s, 3] != tree_nodes[%s, %d]" % (X, X, yv, CH_DOWN),
            "tv_row_finite(tree_vals, %s) and tv_row_finite(tree_vals, %s)" % (X, yv),
            "isfinite(tree_vals[tree_nodes[%s, %d], 7]) and isfinite(tree_vals[tree_nodes[%s, %d], 7]) and "
            "isfinite(tree_vals[tree_nodes[%s, %d], 7])" % (X, CH_DOWN, yv, CH_DOWN, yv, CH_UP),
        ],
        modifies=("tree_vals", "tree_nodes"), result="int", neg_index=True,
        ensures=[
            # CLRS rotation of the links
            "tree_nodes[%s, %d] == %s and tree_nodes[%s, %d] == %s" % (X, CH_UP, B, Y, CH_DOWN, X),
            "tree_nodes[%s, 3] == %s and tree_nodes[%s, 3] == %s and tree_nodes[%s, 3] == %s" % (X, Y, Y, P, B, X),
            "tree_nodes[%s, %d] == %s and tree_nodes[%s, %d] == %s" % (X, CH_DOWN, A, Y, CH_UP, C),
            "(%s != -1) or result == %s" % (P, Y),
            "(%s == -1) or (result == root and ((old(tree_nodes[%s, 1]) == %s and tree_nodes[%s, 1] == %s and tree_nodes[%s, 2] == old(tree_nodes[%s, 2])) or "
            "(old(tree_nodes[%s, 1]) != %s and tree_nodes[%s, 2] == %s and tree_nodes[%s, 1] == old(tree_nodes[%s, 1]))))"
            % (P, P, X, P, Y, P, P, P, X, P, Y, P, P),
            _unchanged_nodes([(X, CH_UP), (X, 3), (Y, CH_DOWN), (Y, 3), (B, 3), (P, 1), (P, 2)]),
            # colours are not touched
            "all(tree_nodes[v, 0] == old(tree_nodes[v, 0]) for v in range(0, N))",
            # the augmented maxima of the two rotated nodes are right for their *new* children; nothing else in tree_vals changes
            "is_max3(tree_vals[%s, 7], tv_min_grad(tree_vals, %s), old(tree_vals[%s, 7]), old(tree_vals[%s, 7]))" % (X, X, A, B),
            "is_max3(tree_vals[%s, 7], tv_min_grad(tree_vals, %s), tree_vals[%s, 7], old(tree_vals[%s, 7]))" % (Y, Y, X, C),
            "all((f == 7 and (v == %s or v == %s)) or same(tree_vals[v, f], old(tree_vals[v, f])) for v in range(0, N) for f in range(0, 8))" % (X, Y),
            # ... and if the two nodes' maxima were right before, the subtree's maximum (now at the node that came up) is what it was,
            # so the parent's maximum stays right
            "(not (is_max3(old(tree_vals[%s, 7]), tv_min_grad(tree_vals, %s), old(tree_vals[%s, 7]), old(tree_vals[%s, 7])) and "
            "is_max3(old(tree_vals[%s, 7]), tv_min_grad(tree_vals, %s), old(tree_vals[%s, 7]), old(tree_vals[%s, 7])))) or "
            "tree_vals[%s, 7] == old(tree_vals[%s, 7])" % (X, X, A, Y, Y, Y, B, C, Y, X),
        ],
        props=("C05",), native={"skip": True},
    )


rotate("_left_rotate", "x", 1, 2)
rotate("_right_rotate", "y", 2, 1)


# ---- node creation: all eight value fields from `val` (max_grad starts at the smallest gradient), red/given colour, no links
Contract(
    M, "_create_tree_nodes", dict(_TT, x="int", val="f1", color="int"), lets=_LETN,
    requires=_TSH + ["tn_node_ok(x, N)", "val.shape[0] == 8"],
    modifies=("tree_vals", "tree_nodes"), neg_index=True,
    ensures=[
        "all(same(tree_vals[x, f], val[f]) for f in range(0, 7))",
        "tree_vals[x, 7] == -9999999999999999999999.0",
        "tree_nodes[x, 0] == color and tree_nodes[x, 1] == -1 and tree_nodes[x, 2] == -1 and tree_nodes[x, 3] == -1",
        "all(v == x or same(tree_vals[v, f], old(tree_vals[v, f])) for v in range(0, N) for f in range(0, 8))",
        "all(v == x or tree_nodes[v, f] == old(tree_nodes[v, f]) for v in range(0, N) for f in range(0, 4))",
    ],
    props=("C05",), native={"skip": True},
)

_PTRS = "all(tn_ptr_ok(tree_nodes[v, 1], N) and tn_ptr_ok(tree_nodes[v, 2], N) and tn_ptr_ok(tree_nodes[v, 3], N) for v in range(0, N - 1))"
# ---- search: NIL or a node holding the key (partial correctness: the descent is not shown to terminate here)
Contract(
    M, "_search_for_node", dict(_TT, root="int", key="float"), lets=_LETN,
    requires=_TSH + ["tn_ptr_ok(root, N)", _PTRS],
    result="int", neg_index=True,
    ensures=["result == -1 or (tn_node_ok(result, N) and not (key < tree_vals[result, 0]) and not (key > tree_vals[result, 0]))"],
    loops={0: LoopSpec("while", inv=["tn_ptr_ok(cur_node, N)"])},
    props=("C05",), native={"skip": True},
)
Contract(
    M, "_tree_minimum", {"tree_nodes": "i2", "x": "int"}, lets=_LETN,
    requires=["tree_nodes.shape[1] == 4 and N >= 2", "tn_node_ok(x, N)", _PTRS],
    result="int", neg_index=True,
    ensures=["tn_node_ok(result, N) and tree_nodes[result, 1] == -1"],
    loops={0: LoopSpec("while", inv=["tn_node_ok(x, N)"])},
    props=("C05",), native={"skip": True},
)


# ---- deletion, successor case (CLRS 13-15): the successor's payload moves into the node that stays, whose maximum is recomputed.
# Fragment extracted mechanically: the straight-line prefix of the body of `if y != NIL_ID and y != z:` in _delete_from_tree
# (dropped: everything else of the function - search, unlinking, the upward repair walks, the red-black fix-up).
Contract(
    M, "_delete_from_tree@successor_payload", dict(_TT, y="int", z="int"), lets=_LETN,
    requires=_TSH + ["tn_node_ok(y, N) and tn_node_ok(z, N) and y != z",
                     "tn_ptr_ok(tree_nodes[z, 1], N) and tn_ptr_ok(tree_nodes[z, 2], N) and tree_nodes[z, 1] != z and tree_nodes[z, 2] != z",
                     "tv_row_finite(tree_vals, y) and tv_row_finite(tree_vals, z)",
                     "isfinite(tree_vals[tree_nodes[z, 1], 7]) and isfinite(tree_vals[tree_nodes[z, 2], 7])"],
    modifies=("tree_vals",), result="int", neg_index=True,
    ensures=[
        "all(same(tree_vals[z, f], old(tree_vals[y, f])) for f in range(0, 7))",
        "is_max3(tree_vals[z, 7], tv_min_grad(tree_vals, z), old(tree_vals[tree_nodes[z, 1], 7]), old(tree_vals[tree_nodes[z, 2], 7]))",
        "all(v == z or same(tree_vals[v, f], old(tree_vals[v, f])) for v in range(0, N) for f in range(0, 8))",
    ],
    options={"fragment": ("if_prefix", "y != NIL_ID and y != z"), "fragment_result": "z"},
    props=("C05",), native={"skip": True},
)

# ---- _calculate_event_row_col: the diagonal neighbour that shares the event's corner with the cell.  The corner is characterised
# as in _calc_event_pos (every corner of the cell lies counter-clockwise of the entering and clockwise of the exiting corner), so the
# elevation averaged in _calc_event_elev is taken around the same corner whose bearing _calc_event_pos / _calculate_angle report
_cy, _cx = "vs_dy((result[0] + event_row) / 2.0, viewpoint_row)", "vs_dx((result[1] + event_col) / 2.0, viewpoint_col)"
_enter2 = " and ".join("cross2(%s, %s, vs_dx(%s, viewpoint_col), vs_dy(%s, viewpoint_row)) >= 0" % (_cx, _cy, cx, cy) for cy, cx in _CORNERS)
_exit2 = " and ".join("cross2(vs_dx(%s, viewpoint_col), vs_dy(%s, viewpoint_row), %s, %s) >= 0" % (cx, cy, _cx, _cy) for cy, cx in _CORNERS)
Contract(
    M, "_calculate_event_row_col",
    {"event_type": "int", "event_row": "int", "event_col": "int", "viewpoint_row": "int", "viewpoint_col": "int"},
    requires=["event_type == 1 or event_type == -1 or event_type == 0"],
    raises={"ValueError": "event_type == 0"},
    result=("int", "int"),
    ensures=[
        "%s or (result[0] == event_row and result[1] == event_col)" % _V,
        "not %s or ((result[0] == event_row - 1 or result[0] == event_row + 1) and (result[1] == event_col - 1 or result[1] == event_col + 1))" % _V,
        "event_type != 1 or not %s or (%s)" % (_V, _enter2),
        "event_type != -1 or not %s or (%s)" % (_V, _exit2),
    ],
    props=("C05",),
    native={"opts": {"int_lo": -1, "int_hi": 4}},
)

# ---- _calc_event_elev: mean of the four cells around that corner when they are all inside the raster and not NaN, else the cell's own
# elevation (inrast holds the three rows event_row-1 .. event_row+1)
Contract(
    M, "_calc_event_elev",
    {"event_type": "int", "event_row": "int", "event_col": "int", "n_rows": "int", "n_cols": "int", "viewpoint_row": "int",
     "viewpoint_col": "int", "inrast": "f2"},
    requires=["event_type == 1 or event_type == -1", "inrast.shape[0] == 3 and inrast.shape[1] == n_cols",
              "0 <= event_col and event_col < n_cols and 0 <= event_row and event_row < n_rows"],
    result="float",
    ensures=[
        "same(result, inrast[1, event_col]) or any(any((dr == -1 or dr == 1) and (dc == -1 or dc == 1) and "
        "0 <= event_row + dr and event_row + dr < n_rows and 0 <= event_col + dc and event_col + dc < n_cols and "
        "not isnan(inrast[1 + dr, event_col + dc]) and not isnan(inrast[1 + dr, event_col]) and not isnan(inrast[1, event_col + dc]) and "
        "same(result, (inrast[1 + dr, event_col + dc] + inrast[1 + dr, event_col] + inrast[1, event_col + dc] + inrast[1, event_col]) / 4.0) "
        "for dc in range(-1, 2)) for dr in range(-1, 2))",
    ],
    props=("C05",), native={"skip": True},
)
