"""C05 - geometric helpers of the viewshed sweep (the bounded line-of-sight oracle is built from these)."""
from pyvc.contract import Contract

M = "xrspatial/viewshed.py"

Contract(M, "_compare", {"a": "float", "b": "float"}, result="int",
         ensures=["(result == -1) == (a < b)", "(result == 1) == (a > b and not (a < b))", "result == -1 or result == 0 or result == 1"],
         props=("C05",))

# ---- _calc_event_pos: CENTER -> the cell centre; ENTERING / EXITING -> the corner of the cell with the smallest / largest
# sweep angle as seen from the viewpoint (every corner lies counter-clockwise of the entering and clockwise of the exiting one)
_V = "(event_row != viewpoint_row or event_col != viewpoint_col)"
_CORNERS = [("event_row - 0.5", "event_col - 0.5"), ("event_row - 0.5", "event_col + 0.5"),
            ("event_row + 0.5", "event_col - 0.5"), ("event_row + 0.5", "event_col + 0.5")]
_rx, _ry = "vs_dx(result[1], viewpoint_col)", "vs_dy(result[0], viewpoint_row)"
_enter = " and ".join("cross2(%s, %s, vs_dx(%s, viewpoint_col), vs_dy(%s, viewpoint_row)) >= 0" % (_rx, _ry, cx, cy) for cy, cx in _CORNERS)
_exit = " and ".join("cross2(vs_dx(%s, viewpoint_col), vs_dy(%s, viewpoint_row), %s, %s) >= 0" % (cx, cy, _rx, _ry) for cy, cx in _CORNERS)
Contract(
    M, "_calc_event_pos",
    {"event_type": "int", "event_row": "int", "event_col": "int", "viewpoint_row": "int", "viewpoint_col": "int"},
    requires=["event_type == 1 or event_type == -1 or event_type == 0"],
    result=("float", "float"),
    ensures=[
        "event_type != 0 or (result[0] == event_row and result[1] == event_col)",
        "event_type == 0 or not %s or ((result[0] == event_row - 0.5 or result[0] == event_row + 0.5) and "
        "(result[1] == event_col - 0.5 or result[1] == event_col + 0.5))" % _V,
        "event_type != 1 or not %s or (%s)" % (_V, _enter),
        "event_type != -1 or not %s or (%s)" % (_V, _exit),
    ],
    props=("C05",),
    native={"opts": {"int_lo": -1, "int_hi": 4}},
)

# ---- _calculate_angle: sweep angle in [0, 2 pi), quadrant-correct
_Q = "event_x, event_y, viewpoint_x, viewpoint_y"
Contract(
    M, "_calculate_angle", {"event_x": "float", "event_y": "float", "viewpoint_x": "float", "viewpoint_y": "float"},
    requires=["isfinite(event_x) and isfinite(event_y) and isfinite(viewpoint_x) and isfinite(viewpoint_y)"],
    result="float",
    ensures=[
        "0 <= result and result < 2 * pi",
        "not (event_y == viewpoint_y and event_x > viewpoint_x) or result == 0",
        "not (event_x == viewpoint_x and event_y < viewpoint_y) or result == pi / 2",
        "not (event_y == viewpoint_y and event_x < viewpoint_x) or result == pi",
        "not (event_x == viewpoint_x and event_y > viewpoint_y) or result == pi * 3.0 / 2.0",
        "not (event_x > viewpoint_x and event_y < viewpoint_y) or (0 < result and result < pi / 2)",
        "not (event_x < viewpoint_x and event_y < viewpoint_y) or (pi / 2 < result and result < pi)",
        "not (event_x < viewpoint_x and event_y > viewpoint_y) or (pi < result and result < pi * 3.0 / 2.0)",
        "not (event_x > viewpoint_x and event_y > viewpoint_y) or (pi * 3.0 / 2.0 < result and result < 2 * pi)",
    ],
    props=("C05",), axioms=("pi", "atan_range", "atan_sign_strict"),
)

_G = {"elev": "float", "viewpoint_row": "int", "viewpoint_col": "int", "viewpoint_elev": "float", "ew_res": "float", "ns_res": "float"}
Contract(M, "_calc_event_grad", dict({"row": "float", "col": "float"}, **_G), result="float",
         requires=["isfinite(row) and isfinite(col) and isfinite(elev) and isfinite(viewpoint_elev) and isfinite(ew_res) and isfinite(ns_res)"],
         ensures=["same(result, spec_gradient(row, col, elev, viewpoint_row, viewpoint_col, viewpoint_elev, ew_res, ns_res))"],
         props=("C05",), axioms=("pi", "sqrt"))
Contract(M, "_calc_dist_n_grad", dict({"status_node_row": "int", "status_node_col": "int"}, **_G), result=("float", "float"),
         requires=["isfinite(elev) and isfinite(viewpoint_elev) and isfinite(ew_res) and isfinite(ns_res)"],
         ensures=["same(result[0], spec_dist2(status_node_row, status_node_col, viewpoint_row, viewpoint_col, ew_res, ns_res))",
                  "same(result[1], spec_gradient(status_node_row, status_node_col, elev, viewpoint_row, viewpoint_col, viewpoint_elev, ew_res, ns_res))"],
         props=("C05",), axioms=("pi", "sqrt"))

# ---- _get_vertical_ang: 0..180 degrees, 90 = level, from the elevation difference and the (squared) horizontal distance
Contract(
    M, "_get_vertical_ang", {"viewpoint_elev": "float", "distance_to_viewpoint": "float", "elev": "float"},
    requires=["isfinite(viewpoint_elev) and isfinite(elev) and isfinite(distance_to_viewpoint) and distance_to_viewpoint > 0"],
    result="float",
    ensures=[
        "0 <= result and result <= 180",
        "(result == 90) == (viewpoint_elev - elev == 0)",
        "not (viewpoint_elev - elev > 0) or same(result, atan(sqrt(distance_to_viewpoint) / (viewpoint_elev - elev)) * 180 / pi)",
        "not (viewpoint_elev - elev < 0) or same(result, atan(abs(viewpoint_elev - elev) / sqrt(distance_to_viewpoint)) * 180 / pi + 90)",
    ],
    props=("C05",), axioms=("pi", "sqrt", "atan_range", "atan_sign_strict"),
)
