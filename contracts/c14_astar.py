"""C14 - A* building blocks."""
from pyvc.contract import Contract, LoopSpec

M = "xrspatial/pathfinding.py"

Contract(M, "_is_not_crossable", {"cell_value": "float", "barriers": "f1"},
         lets=[("nb", "barriers.shape[0]")],
         result="bool",
         ensures=["result == not_crossable(cell_value, barriers, nb)"],
         loops={0: LoopSpec("for", index="k", inv=["not isnan(cell_value)", "all(not (cell_value == barriers[q]) for q in range(0, k))"])},
         props=("C14",))

Contract(M, "_is_inside", {"py": "int", "px": "int", "h": "int", "w": "int"}, result="bool",
         ensures=["result == (0 <= py and py < h and 0 <= px and px < w)"], props=("C14",))

Contract(M, "_distance", {"x1": "float", "y1": "float", "x2": "float", "y2": "float"}, result="float",
         ensures=["same(result, pdist(x1, y1, x2, y2))",
                  "not (isfinite(x1) and isfinite(y1) and isfinite(x2) and isfinite(y2)) or (isfinite(result) and result >= 0)"],
         props=("C14",), axioms=("sqrt",))

Contract(M, "_heuristic", {"x1": "float", "y1": "float", "x2": "float", "y2": "float"}, result="float",
         ensures=["same(result, pdist(x1, y1, x2, y2))",
                  "not (isfinite(x1) and isfinite(y1) and isfinite(x2) and isfinite(y2)) or (isfinite(result) and result >= 0)"],
         props=("C14",), axioms=("sqrt",))

# ---- _min_cost_pixel_id: an open cell of minimum cost below the (h+w)^2 cap, or (NONE, NONE) when there is none
_BIG = "(height + width) * (height + width)"
Contract(
    M, "_min_cost_pixel_id", {"cost": "f2", "is_open": "b2"},
    lets=[("height", "cost.shape[0]"), ("width", "cost.shape[1]")],
    requires=["is_open.shape[0] == height and is_open.shape[1] == width",
              "all(not isnan(cost[i, j]) for i in range(0, height) for j in range(0, width))"],
    result=("int", "int"),
    ensures=[
        "(result[0] == -1 and result[1] == -1) or (0 <= result[0] and result[0] < height and 0 <= result[1] and result[1] < width "
        "and is_open[result[0], result[1]] and cost[result[0], result[1]] < %s)" % _BIG,
        "(not (result[0] == -1)) or all(not (is_open[i, j] and cost[i, j] < %s) for i in range(0, height) for j in range(0, width))" % _BIG,
        "result[0] == -1 or all((not is_open[i, j]) or cost[result[0], result[1]] <= cost[i, j] "
        "for i in range(0, height) for j in range(0, width))",
    ],
    loops={
        0: LoopSpec("for", inv=[
            "(py == -1 and px == -1 and same(min_cost, %s)) or (0 <= py and py < i and 0 <= px and px < width and is_open[py, px] "
            "and same(min_cost, cost[py, px]) and min_cost < %s)" % (_BIG, _BIG),
            "all((not is_open[p, q]) or min_cost <= cost[p, q] for p in range(0, i) for q in range(0, width))",
        ]),
        1: LoopSpec("for", inv=[
            "(py == -1 and px == -1 and same(min_cost, %s)) or (0 <= py and py <= i and 0 <= px and px < width and is_open[py, px] "
            "and same(min_cost, cost[py, px]) and min_cost < %s)" % (_BIG, _BIG),
            "all((not is_open[p, q]) or min_cost <= cost[p, q] for p in range(0, i) for q in range(0, width))",
            "all((not is_open[i, q]) or min_cost <= cost[i, q] for q in range(0, j))",
        ]),
    },
    types={"min_cost": "float"},
    props=("C14",),
    native={"opts": {"maxdim": 4, "pool": [0.0, 1.0, 2.0, 1.4142135623730951, 3.0, 5.5, 100.0]}},
)

# ---- _find_nearest_pixel: the cell itself if crossable, else a crossable cell at minimum pixel distance, else (NONE, NONE)
_NC = lambda y, x: "not_crossable(data[%s, %s], barriers, nb)" % (y, x)
Contract(
    M, "_find_nearest_pixel", {"py": "int", "px": "int", "data": "f2", "barriers": "f1"},
    lets=[("height", "data.shape[0]"), ("width", "data.shape[1]"), ("nb", "barriers.shape[0]")],
    requires=["0 <= py and py < height and 0 <= px and px < width"],
    result=("int", "int"),
    ensures=[
        "(%s) or (result[0] == py and result[1] == px)" % _NC("py", "px"),
        "(result[0] == -1 and result[1] == -1) or (0 <= result[0] and result[0] < height and 0 <= result[1] and result[1] < width "
        "and not %s)" % _NC("result[0]", "result[1]"),
        "(not (result[0] == -1)) or all(%s for y in range(0, height) for x in range(0, width))" % _NC("y", "x"),
        "result[0] == -1 or all(%s or pdist(result[1], result[0], px, py) <= pdist(x, y, px, py) "
        "for y in range(0, height) for x in range(0, width))" % _NC("y", "x"),
    ],
    loops={
        0: LoopSpec("for", inv=[
            "(nearest_y == -1 and nearest_x == -1 and min_distance == inf) or (0 <= nearest_y and nearest_y < y and 0 <= nearest_x and "
            "nearest_x < width and (not %s) and same(min_distance, pdist(nearest_x, nearest_y, px, py)))" % _NC("nearest_y", "nearest_x"),
            "all(%s or min_distance <= pdist(q, p, px, py) for p in range(0, y) for q in range(0, width))" % _NC("p", "q"),
            "(not (nearest_y == -1)) or all(%s for p in range(0, y) for q in range(0, width))" % _NC("p", "q"),
        ]),
        1: LoopSpec("for", inv=[
            "(nearest_y == -1 and nearest_x == -1 and min_distance == inf) or (0 <= nearest_y and nearest_y <= y and 0 <= nearest_x and "
            "nearest_x < width and (not %s) and same(min_distance, pdist(nearest_x, nearest_y, px, py)))" % _NC("nearest_y", "nearest_x"),
            "all(%s or min_distance <= pdist(q, p, px, py) for p in range(0, y) for q in range(0, width))" % _NC("p", "q"),
            "all(%s or min_distance <= pdist(q, y, px, py) for q in range(0, x))" % _NC("y", "q"),
            "(not (nearest_y == -1)) or (all(%s for p in range(0, y) for q in range(0, width)) and all(%s for q in range(0, x)))"
            % (_NC("p", "q"), _NC("y", "q")),
        ]),
    },
    types={"min_distance": "float"},
    props=("C14",), axioms=("sqrt",),
    native={"opts": {"maxdim": 4, "int_lo": 0, "int_hi": 3, "pool": [0.0, 1.0, 2.0, float("nan")]}},
)

# ---- _reconstruct_path: follows parent pointers from the goal; only path_img is written (partial correctness, no variant)
_INR = lambda y, x: "(0 <= %s and %s < h and 0 <= %s and %s < w)" % (y, y, x, x)
Contract(
    M, "_reconstruct_path",
    {"path_img": "f2", "parent_ys": "i2", "parent_xs": "i2", "cost": "f2", "start_py": "int", "start_px": "int", "goal_py": "int", "goal_px": "int"},
    lets=[("h", "path_img.shape[0]"), ("w", "path_img.shape[1]")],
    requires=[
        "parent_ys.shape[0] == h and parent_ys.shape[1] == w and parent_xs.shape[0] == h and parent_xs.shape[1] == w and cost.shape[0] == h and cost.shape[1] == w",
        "%s and %s" % (_INR("start_py", "start_px"), _INR("goal_py", "goal_px")),
        # every parent pointer is NONE or a cell, and the parent of a cell that has one has one itself (parents are closed cells)
        "all((parent_ys[i, j] == -1) == (parent_xs[i, j] == -1) for i in range(0, h) for j in range(0, w))",
        "all(parent_ys[i, j] == -1 or (%s and parent_ys[parent_ys[i, j], parent_xs[i, j]] != -1) for i in range(0, h) for j in range(0, w))"
        % _INR("parent_ys[i, j]", "parent_xs[i, j]"),
    ],
    modifies=("path_img",),
    ensures=["all(same(path_img[i, j], old(path_img[i, j])) or same(path_img[i, j], cost[i, j]) for i in range(0, h) for j in range(0, w))"],
    loops={0: LoopSpec("while", inv=[
        "path_img.shape[0] == h and path_img.shape[1] == w",
        "%s and parent_ys[current_y, current_x] != -1" % _INR("current_y", "current_x"),
        "all(same(path_img[i, j], old(path_img[i, j])) or same(path_img[i, j], cost[i, j]) for i in range(0, h) for j in range(0, w))",
    ])},
    props=("C14",),
    native={"skip": True},
    notes="termination of the parent walk is not proved (partial correctness)",
)

# ---- _a_star_search: structural invariant of the search (parents are closed crossable neighbours, distances add the step length)
_CR = lambda y, x: "(not not_crossable(data[%s, %s], barriers, nb))" % (y, x)
_HASP = lambda y, x: "parent_ys[%s, %s] != -1" % (y, x)
_J = [
    "parent_ys.shape[0] == height and parent_ys.shape[1] == width and parent_xs.shape[0] == height and parent_xs.shape[1] == width and "
    "d_from_start.shape[0] == height and d_from_start.shape[1] == width and cost.shape[0] == height and cost.shape[1] == width and "
    "is_open.shape[0] == height and is_open.shape[1] == width and is_closed.shape[0] == height and is_closed.shape[1] == width",
    "all((parent_ys[i, j] == -1) == (parent_xs[i, j] == -1) for i in range(0, height) for j in range(0, width))",
    "all(parent_ys[i, j] == -1 or %s for i in range(0, height) for j in range(0, width))" % _INR("parent_ys[i, j]", "parent_xs[i, j]").replace(" h ", " height ").replace("< h ", "< height ").replace("< w", "< width"),
    "parent_ys[start_py, start_px] == start_py and parent_xs[start_py, start_px] == start_px",
    # a cell (other than the start) with a parent: the parent is closed, the cell is crossable and open or closed
    "all(parent_ys[i, j] == -1 or (i == start_py and j == start_px) or (is_closed[parent_ys[i, j], parent_xs[i, j]] and %s and "
    "(is_open[i, j] or is_closed[i, j])) for i in range(0, height) for j in range(0, width))" % _CR("i", "j"),
    # ... it is a neighbour of its parent under the given neighbourhood structure
    "all(parent_ys[i, j] == -1 or (i == start_py and j == start_px) or any(i == parent_ys[i, j] + neighbor_ys[k] and "
    "j == parent_xs[i, j] + neighbor_xs[k] for k in range(0, nn)) for i in range(0, height) for j in range(0, width))",
    # ... and its distance is the parent's distance plus the length of that step
    "all(parent_ys[i, j] == -1 or (i == start_py and j == start_px) or same(d_from_start[i, j], d_from_start[parent_ys[i, j], parent_xs[i, j]] "
    "+ pdist(float(parent_xs[i, j]), float(parent_ys[i, j]), float(j), float(i))) for i in range(0, height) for j in range(0, width))",
    "all(not (is_open[i, j] and is_closed[i, j]) for i in range(0, height) for j in range(0, width))",
    "all((not (is_open[i, j] or is_closed[i, j])) or (parent_ys[i, j] != -1 and %s) for i in range(0, height) for j in range(0, width))" % _CR("i", "j"),
    "all(isfinite(d_from_start[i, j]) and isfinite(cost[i, j]) for i in range(0, height) for j in range(0, width))",
    # the start is the first cell to be closed: until then no other cell has a parent
    "is_closed[start_py, start_px] or all(parent_ys[i, j] == -1 or (i == start_py and j == start_px) for i in range(0, height) for j in range(0, width))",
]
# relaxation (Dijkstra) invariant: every in-raster crossable neighbour of a closed cell has been reached, and unless it is closed itself
# its recorded distance is at most the closed cell's distance plus the step - a cheaper route into an open cell is never ignored
_NY, _NX = "(i + neighbor_ys[k])", "(j + neighbor_xs[k])"
_RELAX_BODY = ("(not (0 <= %(ny)s and %(ny)s < height and 0 <= %(nx)s and %(nx)s < width and %(cr)s)) or "
               "((is_closed[%(ny)s, %(nx)s] or is_open[%(ny)s, %(nx)s]) and (is_closed[%(ny)s, %(nx)s] or "
               "d_from_start[%(ny)s, %(nx)s] <= d_from_start[i, j] + pdist(float(j), float(i), float(%(nx)s), float(%(ny)s))))"
               % {"ny": _NY, "nx": _NX, "cr": _CR(_NY, _NX)})
_RELAX_ALL = ("all((not is_closed[i, j]) or (%s) for i in range(0, height) for j in range(0, width) for k in range(0, nn) "
              "if trig(i) and trig(j))" % _RELAX_BODY)
_RELAX_OTHERS = ("all((not is_closed[i, j]) or (i == py and j == px) or (%s) for i in range(0, height) for j in range(0, width) "
                 "for k in range(0, nn) if trig(i) and trig(j))" % _RELAX_BODY)
_RELAX_CUR = ("all(%s for q in range(0, k))" % _RELAX_BODY.replace("[k]", "[q]").replace("[i, j]", "[py, px]")
              .replace("float(j), float(i)", "float(px), float(py)").replace("(i + ", "(py + ").replace("(j + ", "(px + "))
_RELAX_CUR_K = (_RELAX_BODY.replace("[i, j]", "[py, px]").replace("float(j), float(i)", "float(px), float(py)")
                .replace("(i + ", "(py + ").replace("(j + ", "(px + "))
_BIGC = "(height + width) * (height + width)"
Contract(
    M, "_a_star_search",
    {"data": "f2", "path_img": "f2", "start_py": "int", "start_px": "int", "goal_py": "int", "goal_px": "int", "barriers": "f1",
     "neighbor_ys": "i1", "neighbor_xs": "i1"},
    lets=[("height", "data.shape[0]"), ("width", "data.shape[1]"), ("nb", "barriers.shape[0]"), ("nn", "neighbor_ys.shape[0]")],
    requires=[
        "path_img.shape[0] == height and path_img.shape[1] == width and neighbor_xs.shape[0] == nn",
        "0 <= start_py and start_py < height and 0 <= start_px and start_px < width",
        "0 <= goal_py and goal_py < height and 0 <= goal_px and goal_px < width",
    ],
    modifies=("path_img",),
    loops={
        0: LoopSpec("while", inv=_J + [
            # num_open is recomputed as np.sum(is_open) at the end of every iteration
            "(num_open > 0) == any(is_open[i, j] for i in range(0, height) for j in range(0, width))",
        ], assume=[
            ("all((not is_open[i, j]) or cost[i, j] < %s for i in range(0, height) for j in range(0, width))" % _BIGC,
             "the estimated cost of an open cell is below the (h+w)^2 cap of _min_cost_pixel_id (needs a path-length bound; not proved)"),
        ]),
        1: LoopSpec("for", index="k", inv=_J + [
            "0 <= py and py < height and 0 <= px and px < width and is_closed[py, px] and not is_open[py, px]",
        ]),
    },
    props=("C14",),
    axioms=("sqrt",),
    native={"skip": True},
    notes="structural invariant only; optimality / existence are bounded",
)


# ---- the same function once more, for the relaxation (Dijkstra) invariant alone: carried separately from the parent-pointer
# invariants above because together their instantiations feed each other (cell -> neighbour -> parent -> ...)
_K = [
    _J[0],
    "all(isfinite(d_from_start[i, j]) and isfinite(cost[i, j]) for i in range(0, height) for j in range(0, width))",
    "all(not (is_open[i, j] and is_closed[i, j]) for i in range(0, height) for j in range(0, width))",
]
Contract(
    M, "_a_star_search@relax",
    {"data": "f2", "path_img": "f2", "start_py": "int", "start_px": "int", "goal_py": "int", "goal_px": "int", "barriers": "f1",
     "neighbor_ys": "i1", "neighbor_xs": "i1"},
    lets=[("height", "data.shape[0]"), ("width", "data.shape[1]"), ("nb", "barriers.shape[0]"), ("nn", "neighbor_ys.shape[0]")],
    requires=[
        "path_img.shape[0] == height and path_img.shape[1] == width and neighbor_xs.shape[0] == nn",
        "0 <= start_py and start_py < height and 0 <= start_px and start_px < width",
        "0 <= goal_py and goal_py < height and 0 <= goal_px and goal_px < width",
    ],
    modifies=("path_img",),
    loops={
        0: LoopSpec("while", inv=_K + [
            "(num_open > 0) == any(is_open[i, j] for i in range(0, height) for j in range(0, width))",
            _RELAX_ALL,
        ], assume=[
            ("all((not is_open[i, j]) or cost[i, j] < %s for i in range(0, height) for j in range(0, width))" % _BIGC,
             "the estimated cost of an open cell is below the (h+w)^2 cap of _min_cost_pixel_id (needs a path-length bound; not proved)"),
        ]),
        1: LoopSpec("for", index="k", inv=_K + [
            "0 <= py and py < height and 0 <= px and px < width and is_closed[py, px] and not is_open[py, px]",
            _RELAX_OTHERS, _RELAX_CUR,
        ], cut=[_RELAX_CUR_K]),
    },
    options={"skip_call_requires": ("_reconstruct_path",)},
    props=("C14",),
    axioms=("sqrt",),
    native={"skip": True},
    notes="relaxation invariant only; the call-site preconditions of _reconstruct_path are discharged in the main contract",
)
