"""C14 - A* building blocks."""
from pyvc.contract import Contract, LoopSpec

M = "xrspatial/pathfinding.py"

Contract(M, "_is_not_crossable", {"cell_value": "float", "barriers": "f1"},
         lets=[("nb", "barriers.shape[0]")],
         result="bool",
         ensures=["result == not_crossable(cell_value, barriers, nb)"],
         loops={0: LoopSpec("for", index="k", inv=["not isnan(cell_value)", "all(not (cell_value == barriers[q]) for q in range(0, k))"])},
         props=("C14",))

Contract(M, "_is_inside", {"py": "int", "px": "int", "h": "int", "w": "int"}, result="bool",
         ensures=["result == (0 <= py and py < h and 0 <= px and px < w)"], props=("C14",))

Contract(M, "_distance", {"x1": "float", "y1": "float", "x2": "float", "y2": "float"}, result="float",
         ensures=["same(result, pdist(x1, y1, x2, y2))"], props=("C14",), axioms=("sqrt",))

Contract(M, "_heuristic", {"x1": "float", "y1": "float", "x2": "float", "y2": "float"}, result="float",
         ensures=["same(result, pdist(x1, y1, x2, y2))"], props=("C14",), axioms=("sqrt",))

# ---- _min_cost_pixel_id: an open cell of minimum cost below the (h+w)^2 cap, or (NONE, NONE) when there is none
_BIG = "(height + width) * (height + width)"
Contract(
    M, "_min_cost_pixel_id", {"cost": "f2", "is_open": "b2"},
    lets=[("height", "cost.shape[0]"), ("width", "cost.shape[1]")],
    requires=["is_open.shape[0] == height and is_open.shape[1] == width",
              "all(not isnan(cost[i, j]) for i in range(0, height) for j in range(0, width))"],
    result=("int", "int"),
    ensures=[
        "(result[0] == -1 and result[1] == -1) or (0 <= result[0] and result[0] < height and 0 <= result[1] and result[1] < width "
        "and is_open[result[0], result[1]] and cost[result[0], result[1]] < %s)" % _BIG,
        "(not (result[0] == -1)) or all(not (is_open[i, j] and cost[i, j] < %s) for i in range(0, height) for j in range(0, width))" % _BIG,
        "result[0] == -1 or all((not is_open[i, j]) or cost[result[0], result[1]] <= cost[i, j] "
        "for i in range(0, height) for j in range(0, width))",
    ],
    loops={
        0: LoopSpec("for", inv=[
            "(py == -1 and px == -1 and same(min_cost, %s)) or (0 <= py and py < i and 0 <= px and px < width and is_open[py, px] "
            "and same(min_cost, cost[py, px]) and min_cost < %s)" % (_BIG, _BIG),
            "all((not is_open[p, q]) or min_cost <= cost[p, q] for p in range(0, i) for q in range(0, width))",
        ]),
        1: LoopSpec("for", inv=[
            "(py == -1 and px == -1 and same(min_cost, %s)) or (0 <= py and py <= i and 0 <= px and px < width and is_open[py, px] "
            "and same(min_cost, cost[py, px]) and min_cost < %s)" % (_BIG, _BIG),
            "all((not is_open[p, q]) or min_cost <= cost[p, q] for p in range(0, i) for q in range(0, width))",
            "all((not is_open[i, q]) or min_cost <= cost[i, q] for q in range(0, j))",
        ]),
    },
    types={"min_cost": "float"},
    props=("C14",),
    native={"opts": {"maxdim": 4, "pool": [0.0, 1.0, 2.0, 1.4142135623730951, 3.0, 5.5, 100.0]}},
)

# ---- _find_nearest_pixel: the cell itself if crossable, else a crossable cell at minimum pixel distance, else (NONE, NONE)
_NC = lambda y, x: "not_crossable(data[%s, %s], barriers, nb)" % (y, x)
Contract(
    M, "_find_nearest_pixel", {"py": "int", "px": "int", "data": "f2", "barriers": "f1"},
    lets=[("height", "data.shape[0]"), ("width", "data.shape[1]"), ("nb", "barriers.shape[0]")],
    requires=["0 <= py and py < height and 0 <= px and px < width"],
    result=("int", "int"),
    ensures=[
        "(%s) or (result[0] == py and result[1] == px)" % _NC("py", "px"),
        "(result[0] == -1 and result[1] == -1) or (0 <= result[0] and result[0] < height and 0 <= result[1] and result[1] < width "
        "and not %s)" % _NC("result[0]", "result[1]"),
        "(not (result[0] == -1)) or all(%s for y in range(0, height) for x in range(0, width))" % _NC("y", "x"),
        "result[0] == -1 or all(%s or pdist(result[1], result[0], px, py) <= pdist(x, y, px, py) "
        "for y in range(0, height) for x in range(0, width))" % _NC("y", "x"),
    ],
    loops={
        0: LoopSpec("for", inv=[
            "(nearest_y == -1 and nearest_x == -1 and min_distance == inf) or (0 <= nearest_y and nearest_y < y and 0 <= nearest_x and "
            "nearest_x < width and (not %s) and same(min_distance, pdist(nearest_x, nearest_y, px, py)))" % _NC("nearest_y", "nearest_x"),
            "all(%s or min_distance <= pdist(q, p, px, py) for p in range(0, y) for q in range(0, width))" % _NC("p", "q"),
            "(not (nearest_y == -1)) or all(%s for p in range(0, y) for q in range(0, width))" % _NC("p", "q"),
        ]),
        1: LoopSpec("for", inv=[
            "(nearest_y == -1 and nearest_x == -1 and min_distance == inf) or (0 <= nearest_y and nearest_y <= y and 0 <= nearest_x and "
            "nearest_x < width and (not %s) and same(min_distance, pdist(nearest_x, nearest_y, px, py)))" % _NC("nearest_y", "nearest_x"),
            "all(%s or min_distance <= pdist(q, p, px, py) for p in range(0, y) for q in range(0, width))" % _NC("p", "q"),
            "all(%s or min_distance <= pdist(q, y, px, py) for q in range(0, x))" % _NC("y", "q"),
            "(not (nearest_y == -1)) or (all(%s for p in range(0, y) for q in range(0, width)) and all(%s for q in range(0, x)))"
            % (_NC("p", "q"), _NC("y", "q")),
        ]),
    },
    types={"min_distance": "float"},
    props=("C14",), axioms=("sqrt",),
    native={"opts": {"maxdim": 4, "int_lo": 0, "int_hi": 3, "pool": [0.0, 1.0, 2.0, float("nan")]}},
)
