"""C15 - local helpers of polygonize (the losslessness statement itself is bounded)."""
from pyvc.contract import Contract, LoopSpec

M = "xrspatial/experimental/polygonize.py"

Contract(M, "_diff_row", {"ij0": "int", "ij1": "int", "nx": "int"}, requires=["nx > 0"], result="bool",
         ensures=["result == (ij0 // nx != ij1 // nx)"], props=("C15",))
Contract(M, "_outside_domain", {"ij": "int", "n": "int"}, result="bool", ensures=["result == (ij < 0 or ij >= n)"], props=("C15",))
Contract(M, "_min_and_max", {"value0": "int", "value1": "int"}, result=("int", "int"),
         ensures=["result[0] <= result[1]", "(result[0] == value0 and result[1] == value1) or (result[0] == value1 and result[1] == value0)"],
         props=("C15",))

# a supplied affine transform is applied to every vertex, both coordinates computed from the *old* x, y
Contract(
    M, "_transform_points", {"pts": "f2", "transform": "f1"},
    lets=[("n", "pts.shape[0]")],
    requires=["pts.shape[1] == 2", "transform.shape[0] == 6"],
    modifies=("pts",),
    ensures=[
        "all(same(pts[i, 0], transform[0] * old(pts[i, 0]) + transform[1] * old(pts[i, 1]) + transform[2]) for i in range(0, n))",
        "all(same(pts[i, 1], transform[3] * old(pts[i, 0]) + transform[4] * old(pts[i, 1]) + transform[5]) for i in range(0, n))",
    ],
    loops={0: LoopSpec("for", inv=[
        "pts.shape[0] == n and pts.shape[1] == 2",
        "all(same(pts[q, 0], transform[0] * old(pts[q, 0]) + transform[1] * old(pts[q, 1]) + transform[2]) for q in range(0, i))",
        "all(same(pts[q, 1], transform[3] * old(pts[q, 0]) + transform[4] * old(pts[q, 1]) + transform[5]) for q in range(0, i))",
        "all(same(pts[q, 0], old(pts[q, 0])) and same(pts[q, 1], old(pts[q, 1])) for q in range(i, n))",
    ])},
    props=("C15",),
    native={"gen": "gen_transform_points"},
)

# ---- _merge_regions: the merge forest (region id -> a smaller id of the same region, 0 = root).
# Ghost labellings: `cls` is any labelling that is constant along the links and joins lower/upper - the result's links stay
# inside its classes (nothing else is merged); `dd` is any labelling at all - if it is constant along the *result's* links then
# it was constant along the old links and joins lower/upper (everything that was connected stays connected, and the two
# regions are now connected).
_FOREST = lambda A, n: "all(%s[i] == 0 or (1 <= %s[i] and %s[i] < i) for i in range(0, %s))" % (A, A, A, n)
_CONS = lambda lab, A, n: "all(%s[i] == 0 or %s[i] == %s[%s[i]] for i in range(0, %s))" % (A, lab, lab, A, n)
Contract(
    M, "_merge_regions", {"region_lookup": "i1", "lower_region": "int", "upper_region": "int"},
    ghost_params={"cls": "i1", "dd": "i1"},
    lets=[("L0", "region_lookup.shape[0]")],
    requires=["L0 >= 1", "1 <= lower_region and lower_region < upper_region",
              _FOREST("region_lookup", "L0"), _CONS("cls", "region_lookup", "L0"), "cls[lower_region] == cls[upper_region]"],
    result="i1", modifies=("region_lookup",),
    ensures=[
        "result.shape[0] > upper_region and result.shape[0] >= L0",
        _FOREST("result", "result.shape[0]"),
        _CONS("cls", "result", "result.shape[0]"),
        "(not %s) or (%s and dd[lower_region] == dd[upper_region])" % (
            _CONS("dd", "result", "result.shape[0]"), _CONS("dd", "old(region_lookup)", "L0").replace("old(region_lookup)[i]", "old(region_lookup[i])")),
    ],
    loops={0: LoopSpec("while", inv=[
        "region_lookup.shape[0] > upper_region and region_lookup.shape[0] >= L0",
        "1 <= lower_region and lower_region < upper_region",
        _FOREST("region_lookup", "region_lookup.shape[0]"),
        _CONS("cls", "region_lookup", "region_lookup.shape[0]"), "cls[lower_region] == cls[upper_region]",
        "(not (%s and dd[lower_region] == dd[upper_region])) or (%s and dd[old(lower_region)] == dd[old(upper_region)])" % (
            _CONS("dd", "region_lookup", "region_lookup.shape[0]"),
            "all(old(region_lookup[i]) == 0 or dd[i] == dd[old(region_lookup[i])] for i in range(0, L0))"),
    ], decreases="upper_region")},
    options={"select_patterns": True},
    props=("C15",), native={"skip": True},
)
