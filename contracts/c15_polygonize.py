"""C15 - local helpers of polygonize (the losslessness statement itself is bounded)."""
from pyvc.contract import Contract, LoopSpec

M = "xrspatial/experimental/polygonize.py"

Contract(M, "_diff_row", {"ij0": "int", "ij1": "int", "nx": "int"}, requires=["nx > 0"], result="bool",
         ensures=["result == (ij0 // nx != ij1 // nx)"], props=("C15",))
Contract(M, "_outside_domain", {"ij": "int", "n": "int"}, result="bool", ensures=["result == (ij < 0 or ij >= n)"], props=("C15",))
Contract(M, "_min_and_max", {"value0": "int", "value1": "int"}, result=("int", "int"),
         ensures=["result[0] <= result[1]", "(result[0] == value0 and result[1] == value1) or (result[0] == value1 and result[1] == value0)"],
         props=("C15",))

# a supplied affine transform is applied to every vertex, both coordinates computed from the *old* x, y
Contract(
    M, "_transform_points", {"pts": "f2", "transform": "f1"},
    lets=[("n", "pts.shape[0]")],
    requires=["pts.shape[1] == 2", "transform.shape[0] == 6"],
    modifies=("pts",),
    ensures=[
        "all(same(pts[i, 0], transform[0] * old(pts[i, 0]) + transform[1] * old(pts[i, 1]) + transform[2]) for i in range(0, n))",
        "all(same(pts[i, 1], transform[3] * old(pts[i, 0]) + transform[4] * old(pts[i, 1]) + transform[5]) for i in range(0, n))",
    ],
    loops={0: LoopSpec("for", inv=[
        "pts.shape[0] == n and pts.shape[1] == 2",
        "all(same(pts[q, 0], transform[0] * old(pts[q, 0]) + transform[1] * old(pts[q, 1]) + transform[2]) for q in range(0, i))",
        "all(same(pts[q, 1], transform[3] * old(pts[q, 0]) + transform[4] * old(pts[q, 1]) + transform[5]) for q in range(0, i))",
        "all(same(pts[q, 0], old(pts[q, 0])) and same(pts[q, 1], old(pts[q, 1])) for q in range(i, n))",
    ])},
    props=("C15",),
    native={"gen": "gen_transform_points"},
)
