"""C15 - local helpers of polygonize (the losslessness statement itself is bounded)."""
from pyvc.contract import Contract, LoopSpec

M = "xrspatial/experimental/polygonize.py"

Contract(M, "_diff_row", {"ij0": "int", "ij1": "int", "nx": "int"}, requires=["nx > 0"], result="bool",
         ensures=["result == (ij0 // nx != ij1 // nx)"], props=("C15",))
Contract(M, "_outside_domain", {"ij": "int", "n": "int"}, result="bool", ensures=["result == (ij < 0 or ij >= n)"], props=("C15",))
Contract(M, "_min_and_max", {"value0": "int", "value1": "int"}, result=("int", "int"),
         ensures=["result[0] <= result[1]", "(result[0] == value0 and result[1] == value1) or (result[0] == value1 and result[1] == value0)"],
         props=("C15",))

# a supplied affine transform is applied to every vertex, both coordinates computed from the *old* x, y
Contract(
    M, "_transform_points", {"pts": "f2", "transform": "f1"},
    lets=[("n", "pts.shape[0]")],
    requires=["pts.shape[1] == 2", "transform.shape[0] == 6"],
    modifies=("pts",),
    ensures=[
        "all(same(pts[i, 0], transform[0] * old(pts[i, 0]) + transform[1] * old(pts[i, 1]) + transform[2]) for i in range(0, n))",
        "all(same(pts[i, 1], transform[3] * old(pts[i, 0]) + transform[4] * old(pts[i, 1]) + transform[5]) for i in range(0, n))",
    ],
    loops={0: LoopSpec("for", inv=[
        "pts.shape[0] == n and pts.shape[1] == 2",
        "all(same(pts[q, 0], transform[0] * old(pts[q, 0]) + transform[1] * old(pts[q, 1]) + transform[2]) for q in range(0, i))",
        "all(same(pts[q, 1], transform[3] * old(pts[q, 0]) + transform[4] * old(pts[q, 1]) + transform[5]) for q in range(0, i))",
        "all(same(pts[q, 0], old(pts[q, 0])) and same(pts[q, 1], old(pts[q, 1])) for q in range(i, n))",
    ])},
    props=("C15",),
    native={"gen": "gen_transform_points"},
)

# ---- _merge_regions: the merge forest (region id -> a smaller id of the same region, 0 = root).
# Ghost labellings: `cls` is any labelling that is constant along the links and joins lower/upper - the result's links stay
# inside its classes (nothing else is merged); `dd` is any labelling at all - if it is constant along the *result's* links then
# it was constant along the old links and joins lower/upper (everything that was connected stays connected, and the two
# regions are now connected).
_FOREST = lambda A, n: "all(%s[i] == 0 or (1 <= %s[i] and %s[i] < i) for i in range(0, %s))" % (A, A, A, n)
_CONS = lambda lab, A, n: "all(%s[i] == 0 or %s[i] == %s[%s[i]] for i in range(0, %s))" % (A, lab, lab, A, n)
Contract(
    M, "_merge_regions", {"region_lookup": "i1", "lower_region": "int", "upper_region": "int"},
    ghost_params={"cls": "i1", "dd": "i1"},
    lets=[("L0", "region_lookup.shape[0]")],
    requires=["L0 >= 1", "1 <= lower_region and lower_region < upper_region",
              _FOREST("region_lookup", "L0"), _CONS("cls", "region_lookup", "L0"), "cls[lower_region] == cls[upper_region]"],
    result="i1", modifies=("region_lookup",),
    ensures=[
        "result.shape[0] > upper_region and result.shape[0] >= L0",
        _FOREST("result", "result.shape[0]"),
        _CONS("cls", "result", "result.shape[0]"),
        "(not %s) or (%s and dd[lower_region] == dd[upper_region])" % (
            _CONS("dd", "result", "result.shape[0]"), _CONS("dd", "old(region_lookup)", "L0").replace("old(region_lookup)[i]", "old(region_lookup[i])")),
        # only entries at or below upper_region are written (the chain descends); new entries are zero
        "all(result[i] == (old(region_lookup[i]) if i < L0 else 0) for i in range(upper_region + 1, result.shape[0]))",
    ],
    loops={0: LoopSpec("while", inv=[
        "region_lookup.shape[0] > upper_region and region_lookup.shape[0] >= L0",
        "1 <= lower_region and lower_region < upper_region and upper_region <= old(upper_region)",
        "all(region_lookup[i] == at_entry(0, region_lookup[i]) for i in range(old(upper_region) + 1, region_lookup.shape[0]))",
        _FOREST("region_lookup", "region_lookup.shape[0]"),
        _CONS("cls", "region_lookup", "region_lookup.shape[0]"), "cls[lower_region] == cls[upper_region]",
        "(not (%s and dd[lower_region] == dd[upper_region])) or (%s and dd[old(lower_region)] == dd[old(upper_region)])" % (
            _CONS("dd", "region_lookup", "region_lookup.shape[0]"),
            "all(old(region_lookup[i]) == 0 or dd[i] == dd[old(region_lookup[i])] for i in range(0, L0))"),
    ], decreases="upper_region")},
    options={"select_patterns": True},
    props=("C15",), native={"skip": True},
)

# ---- _is_close: a numba generated_jit dispatcher (integer arguments: ==, otherwise |value - reference| <= 1e-8 + 1e-5 |reference|);
# its two lambdas are pinned on the AST (contracts/tables.py); on the contract's domain both mean equality
Contract(M, "_is_close", {"reference": "float", "value": "float"}, result="bool",
         ensures=["(not (isfinite(reference) and isfinite(value) and rg_separated(value, reference))) or result == (value == reference)"],
         options={"trusted": "generated_jit dispatcher: selects `value == reference` for integers and the isclose form otherwise (the two "
                             "lambdas are checked on the AST); on finite values where isclose is equality both are `value == reference`"},
         props=("C15",), native={"skip": True})

# ---- _calculate_regions: one-pass labelling with W / S (/ SW / SE) neighbours + merge forest, flattening, relabelling.
# Ghost state: comp - any labelling of the cells that joins equal back-neighbours (so: any adjacency-closed labelling);
#              cls  - per region id, the comp class of its cells (written when an id is created);
#              dd   - *prophecy*: any labelling of region ids; ghost_proph says it is the flattened lookup computed in phase 2.
_N = "nx * ny"
_ALLC = lambda body, hi="n": "all(%s for p in range(0, %s) if trig(p))" % (body, hi)
_HINT = "trig(ij) and trig(ij - 1) and trig(ij - nx) and trig(ij - nx - 1) and trig(ij - nx + 1)"
# row arithmetic used by the two skipped-neighbour arguments: W has a S neighbour (= SW), SE has a W neighbour (= S)
_MODW = "(not (ij >= nx and ij % nx > 0)) or ij - 1 >= nx"
_MODS = "(not (ij >= nx and ij % nx < nx - 1)) or (ij - nx + 1) % nx > 0"
_UNM = "pz_unm(mask, p)"
_S1 = lambda hi: [
    # cells handled so far: masked <-> 0; otherwise an id in 1..region whose class is the cell's comp class
    _ALLC("regions[p] == 0 if not %s else (1 <= regions[p] and regions[p] <= region and cls[regions[p]] == comp[p])" % _UNM, hi),
]
_LOOK = [
    "region_lookup.shape[0] >= 1 and region >= 0",
    "all(0 <= regions[p] and regions[p] <= region for p in range(0, regions.shape[0]))",
    _FOREST("region_lookup", "region_lookup.shape[0]"),
    _CONS("cls", "region_lookup", "region_lookup.shape[0]"),
    "all(region_lookup[i] == 0 for i in range(region + 1, region_lookup.shape[0]))",
]
_C1 = lambda hi: "(not %s) or %s" % (_CONS("dd", "region_lookup", "region_lookup.shape[0]"),
                                     _ALLC("(not %s) or pz_rback(dd, regions, values, mask, connectivity_8, nx, p)" % _UNM, hi))


_CELL_S = "1 <= regions[ij] and regions[ij] <= region and cls[regions[ij]] == comp[ij]"
_CELL_C = "(not %s) or pz_rback(dd, regions, values, mask, connectivity_8, nx, ij)" % _CONS("dd", "region_lookup", "region_lookup.shape[0]")


_CONSDD = _CONS("dd", "region_lookup", "region_lookup.shape[0]")
_PEQ = lambda q: "pz_eq(values, mask, ij, %s)" % q
# what is known about region_W / region_S once they are set: the class, and (if dd respects the merge forest) that dd joins them with
# *both* cells on their side, the one that was not examined included (it is the S / W neighbour of the one that was)
_HW = ("1 <= region_W and region_W <= region and cls[region_W] == comp[ij] and ((not %s) or ("
       "((not pz_has_W(ij, nx)) or (not %s) or dd[regions[ij - 1]] == dd[region_W]) and "
       "((not (connectivity_8 and pz_has_S(ij, nx) and pz_has_W(ij, nx))) or (not %s) or dd[regions[ij - nx - 1]] == dd[region_W])))"
       % (_CONSDD, _PEQ("ij - 1"), _PEQ("ij - nx - 1")))
_HS = ("1 <= region_S and region_S <= region and cls[region_S] == comp[ij] and ((not %s) or ("
       "((not pz_has_S(ij, nx)) or (not %s) or dd[regions[ij - nx]] == dd[region_S]) and "
       "((not (connectivity_8 and pz_has_S(ij, nx) and ij %% nx < nx - 1)) or (not %s) or dd[regions[ij - nx + 1]] == dd[region_S])))"
       % (_CONSDD, _PEQ("ij - nx"), _PEQ("ij - nx + 1")))


def calc_regions(variant, mask_ty):
    Contract(
        M, "_calculate_regions@" + variant,
        {"values": "f1", "mask": mask_ty, "connectivity_8": "bool", "nx": "int", "ny": "int"},
        ghost_params={"comp": "i1", "cls": "i1", "dd": "i1"},
        lets=[("n", _N)],
        requires=["nx >= 1 and ny >= 1 and values.shape[0] == n"] + (["mask.shape[0] == n"] if mask_ty != "none" else []) + [
            _ALLC("isfinite(values[p])"),
            "all(rg_separated(values[p], values[q]) for p in range(0, n) for q in range(0, n) if trig(p) and trig(q))",
            _ALLC("(not %s) or pz_back(comp, values, mask, connectivity_8, nx, p)" % _UNM)],
        raises={"RuntimeError": "True"},
        result="i1", modifies=("cls",),
        ensures=[
            "result.shape[0] == n",
            _ALLC("(result[p] == 0) == (not %s) and result[p] >= 0" % _UNM),
            # soundness: equal labels => equal class, for every adjacency-closed comp
            "all((not (%s and pz_unm(mask, q) and result[p] == result[q])) or comp[p] == comp[q] for p in range(0, n) for q in range(0, n) "
            "if trig(p) and trig(q))" % _UNM,
            # completeness step (under the prophecy): the result joins every cell with its equal back-neighbours
            "(not ghost_proph) or " + _ALLC("(not %s) or pz_back(result, values, mask, connectivity_8, nx, p)" % _UNM),
        ],
        loops={
            0: LoopSpec("for", index="ij", inv=["regions.shape[0] == n"] + _LOOK + _S1("ij") + [_C1("ij")]),
            1: LoopSpec("for", index="i", inv=["regions.shape[0] == n", "max_region == region + 1", "new_region_lookup.shape[0] == max_region",
                                               "n_region_lookup == region_lookup.shape[0]"] + _LOOK + _S1("n") + [
                _C1("n"),
                "0 <= new_region and new_region <= i",
                "all(0 <= new_region_lookup[k] and new_region_lookup[k] < new_region for k in range(0, i))",
                "i == 0 or new_region_lookup[0] == 0",
                "all(new_region_lookup[k] >= 1 for k in range(1, i))",
                "all((not (new_region_lookup[k] == new_region_lookup[m])) or cls[k] == cls[m] for k in range(1, i) for m in range(1, i))",
                "all(region_lookup[k] == 0 or new_region_lookup[k] == new_region_lookup[region_lookup[k]] "
                "for k in range(0, i) if k < n_region_lookup)",
            ]),
            2: LoopSpec("for", index="ij", inv=[
                "regions.shape[0] == n",
                "all(regions[p] == region_lookup[at_entry(2, regions[p])] for p in range(0, ij))",
                "(not ghost_proph) or " + _ALLC("(not %s) or pz_back(regions, values, mask, connectivity_8, nx, p)" % _UNM, "ij"),
                "all(regions[p] == at_entry(2, regions[p]) for p in range(ij, n))",
            ]),
        },
        ghost={"after_assign": dict({
            # the facts about the cell just labelled, proved where its label is assigned (before the branches are joined)
            k: ["assert " + _CELL_S, "assert " + _CELL_C] for k in ("regions<-region_W", "regions<-region_S", "regions<-region")},
            **{"regions<-lower_region": ["assert " + _CELL_S],
               "region_lookup<-_merge_regions(region_lookup, lower_region, upper_region)": ["assert " + _CELL_C]},
            **{
            "matches_W": ["assert " + _HINT, "assert " + _MODW, "assert " + _MODS],
            "region_W": ["assert " + _HW],
            "region_S": ["assert " + _HS],
            "region<-<aug>": ["cls[region] = comp[ij]"],
            "n_region_lookup": ["ghost_lookup1 = region_lookup"],
            "region_lookup<-new_region_lookup": [
                "ghost_proph = all(dd[k] == new_region_lookup[k] for k in range(0, max_region))",
                # under the prophecy dd respects the merge forest of phase 1 ...
                "assert (not ghost_proph) or " + _CONS("dd", "ghost_lookup1", "ghost_lookup1.shape[0]"),
                # ... so it joins every cell with its equal back-neighbours (phase-1 invariant)
                "assert (not ghost_proph) or " + _ALLC("(not %s) or pz_rback(dd, regions, values, mask, connectivity_8, nx, p)" % _UNM),
            ],
        })},
        options={"select_patterns": True, "ghost_spec_mode": True, "ensures_locals": ("ghost_proph",)},
        props=("C15",), native={"skip": True},
    )


calc_regions("mask", "b1")
calc_regions("nomask", "none")

# ---- _follow: the boundary walk (partial correctness; the walk's termination is the Jordan-curve argument and is not proved).
# Proved: the walk stays inside the raster on cells of its region with one of the four (forward, left) pairs; every stored vertex is a
# cell corner; consecutive stored vertices differ in exactly one coordinate (axis-parallel, non-degenerate edges), including the
# closing edge back to the first vertex; the ring is closed (last row == first row).  Ghost: gs = steps since the last vertex.
_DIRS = ("((forward == 1 and left == nx) or (forward == nx and left == -1) or (forward == -1 and left == -nx) or (forward == -nx and left == 1))")
_PF = "(prev_forward == 0 or prev_forward == 1 or prev_forward == -1 or prev_forward == nx or prev_forward == -nx)"
_CX, _CY = "fw_cx(ij, forward, nx)", "fw_cy(ij, forward, nx)"
_LX, _LY = "points[2 * (npoints - 1)]", "points[2 * (npoints - 1) + 1]"
_P1 = "pass_ == 0 or "
# row / column arithmetic of one step, as separately proved hints (nonlinear in nx: discharged by cvc5)
_STEP = lambda b: [
    "(%(b)s // nx != (%(b)s + 1) // nx) or ((%(b)s + 1) %% nx == %(b)s %% nx + 1)" % {"b": b},
    "(%(b)s // nx != (%(b)s - 1) // nx) or ((%(b)s - 1) %% nx == %(b)s %% nx - 1)" % {"b": b},
    "(%(b)s + nx) %% nx == %(b)s %% nx and (%(b)s + nx) // nx == %(b)s // nx + 1" % {"b": b},
    "(%(b)s - nx) %% nx == %(b)s %% nx and (%(b)s - nx) // nx == %(b)s // nx - 1" % {"b": b},
]
_WALK = [
    "n == nx * ny and 0 <= ij and ij < n and regions[ij] == region and visited.shape[0] == n and 0 <= start_ij and start_ij < n "
    "and ij // nx < ny and start_ij // nx < ny",
    _DIRS, _PF,
    "npoints >= 0 and gs >= 0 and (start_forward == 1 or start_forward == -1)",
    "(npoints == 0) == (prev_forward == 0)",
    "npoints == 0 or gs >= 1",
    "npoints > 0 or (ij == start_ij and forward == start_forward)",
    # pass 1: stored vertices are corners of the grid
    _P1 + "all(0 <= points[2 * t] and points[2 * t] <= nx and 0 <= points[2 * t + 1] and points[2 * t + 1] <= ny for t in range(0, npoints))",
    # ... the first one is the start corner
    _P1 + "npoints == 0 or (points[0] == fw_cx(start_ij, start_forward, nx) and points[1] == fw_cy(start_ij, start_forward, nx))",
    # ... the current corner lies gs >= 1 steps from the last vertex (ghost integers glx, gly), in the direction walked since then
    "npoints == 0 or fw_along(glx, gly, %s, %s, prev_forward, gs, nx)" % (_CX, _CY),
    "npoints == 0 or (0 <= glx and glx <= nx and 0 <= gly and gly <= ny)",
    _P1 + "npoints == 0 or (%s == glx and %s == gly)" % (_LX, _LY),
    # ... consecutive stored vertices differ in exactly one coordinate
    _P1 + "all(fw_one_axis(points[2 * t], points[2 * t + 1], points[2 * t + 2], points[2 * t + 3]) for t in range(0, npoints - 1))",
]
Contract(
    M, "_follow", {"regions": "i1", "visited": "i1", "nx": "int", "ny": "int", "ij": "int", "hole": "bool"},
    lets=[("n0", "nx * ny")],
    requires=["nx >= 2 and ny >= 1", "regions.shape[0] == n0 and visited.shape[0] == n0", "0 <= ij and ij < n0"],
    modifies=("visited",),
    result=("int", "f2"),
    ensures=[
        "result[0] == regions[ij]",
        "result[1].shape[1] == 2 and npoints >= 1 and npoints <= result[1].shape[0] - 1",
        # closed ring
        "result[1][result[1].shape[0] - 1, 0] == result[1][0, 0] and result[1][result[1].shape[0] - 1, 1] == result[1][0, 1]",
        # the stored vertices: grid corners, consecutive ones joined by axis-parallel non-degenerate edges
        "all(0 <= result[1][t, 0] and result[1][t, 0] <= nx and 0 <= result[1][t, 1] and result[1][t, 1] <= ny for t in range(0, npoints))",
        "all(fw_one_axis(result[1][t, 0], result[1][t, 1], result[1][t + 1, 0], result[1][t + 1, 1]) for t in range(0, npoints - 1))",
        # the closing edge: from the last stored vertex back to the first
        "fw_one_axis(result[1][npoints - 1, 0], result[1][npoints - 1, 1], result[1][0, 0], result[1][0, 1])",
    ],
    loops={1: LoopSpec("while", inv=_WALK, assume=[
        ("pass_ == 0 or npoints < (points.shape[0] - 2) // 2 or (npoints == (points.shape[0] - 2) // 2 and prev_forward == forward)",
         "the second pass retraces the first (same deterministic walk: visited is written but never read), so it meets at most the "
         "npoints corners counted in the first pass, for which the buffer was sized - proved as an invariant by the second contract of the "
         "same function, _follow@retrace (ghost trace of pass 0, both passes advance by the spec step fw_next_*); assumed here only so "
         "that the two sets of invariants stay apart"),
    ], cut=[
        # one iteration moves the corner exactly one step in the heading it had (straight, left turn in place, right turn into the next cell)
    ] + ["turn != %d or fw_along(gcx, gcy, %s, %s, gfw, 1, nx)" % (t, _CX, _CY) for t in (0, -1, 1)] + [
        "fw_along(gcx, gcy, %s, %s, gfw, 1, nx)" % (_CX, _CY),
    ], post=[
        "n == nx * ny and visited.shape[0] == n and npoints >= 1",
        "ij == start_ij and 0 <= ij and ij < n and regions[ij] == region and ij // nx < ny and start_ij // nx < ny",
        _P1 + "(points.shape[0] >= 2 * (npoints + 1) and points.shape[0] % 2 == 0)",
        _P1 + "all(0 <= points[2 * t] and points[2 * t] <= nx and 0 <= points[2 * t + 1] and points[2 * t + 1] <= ny for t in range(0, npoints))",
        _P1 + "all(fw_one_axis(points[2 * t], points[2 * t + 1], points[2 * t + 2], points[2 * t + 3]) for t in range(0, npoints - 1))",
        _P1 + "fw_one_axis(%s, %s, points[0], points[1])" % (_LX, _LY),
    ])},
    ghost={"after_assign": {
        "npoints<-0": ["gs = 0\nglx = 0\ngly = 0"],
        "npoints<-<aug>": ["gs = 0\nglx = fw_cx(ij, forward, nx)\ngly = fw_cy(ij, forward, nx)"],
        "ijnext<-ij + forward": ["gs = gs + 1\ngfw = forward\ngcx = fw_cx(ij, forward, nx)\ngcy = fw_cy(ij, forward, nx)"],
        "ijnext_right<-ijnext - left": ["assert " + h for h in _STEP("ij") + _STEP("ijnext")],
    }},
    options={"ghost_spec_mode": True, "ensures_locals": ("npoints",)},
    props=("C15",), native={"skip": True},
    notes="requires nx >= 2: with a single column E (+1) and N (+nx) coincide; polygonize adds a column for that case",
)


# ---- _follow once more: the second pass retraces the first.  Ghost trace of pass 0 (state of every iteration at the point where
# `ijnext` is computed, i.e. after a possible vertex emission): tij / tfw / tlf / tnp, gt = iterations so far, gT = iterations of
# pass 0.  Both passes are shown to advance by the same spec step fw_next_* (a function of the state and of `regions`, which is
# not written), so pass 1 is in the recorded state at every iteration and has stored at most the vertices pass 0 counted there.
_ST = lambda i: "regions, region, tij[%s], tfw[%s], tlf[%s], nx, n" % (i, i, i)
_CUR = "regions, region, gij, gfw, glf, nx, n"
_TR = "(gt if pass_ == 0 else gT)"
_RETR = [
    "n == nx * ny and 0 <= ij and ij < n and regions[ij] == region and visited.shape[0] == n and 0 <= start_ij and start_ij < n",
    _DIRS, "npoints >= 0 and gt >= 0 and gT >= 0",
    "(npoints == 0) == (prev_forward == 0)",
    "(gt == 0) == (prev_forward == 0)",
    "gt > 0 or (ij == start_ij and forward == start_forward and left == start_left)",
    # what the trace holds so far (pass 0) / held at the end of pass 0 (pass 1)
    "all(tij[t + 1] == fw_next_ij(%s) and tfw[t + 1] == fw_next_fw(%s) and tlf[t + 1] == fw_next_lf(%s) for t in range(0, %s - 1) if trig(t))"
    % (_ST("t"), _ST("t"), _ST("t"), _TR),
    "all(tnp[t + 1] == tnp[t] + (1 if tfw[t + 1] != tfw[t] else 0) for t in range(0, %s - 1) if trig(t))" % _TR,
    "%s == 0 or (tij[0] == start_ij and tfw[0] == start_forward and tlf[0] == start_left and tnp[0] == 1)" % _TR,
    "all(tnp[t] <= (npoints if pass_ == 0 else gnp0) for t in range(0, %s) if trig(t))" % _TR,
    # the current state is the spec step of the last recorded one
    "gt == 0 or (ij == fw_next_ij(%s) and forward == fw_next_fw(%s) and left == fw_next_lf(%s) and prev_forward == tfw[gt - 1])"
    % (_ST("gt - 1"), _ST("gt - 1"), _ST("gt - 1")),
    "gt == 0 or tnp[gt - 1] == npoints",
    # pass 1: same state as pass 0 at the same iteration, an entry is still recorded for it
    "pass_ == 0 or (gt < gT and points.shape[0] == 2 * (gnp0 + 1) and gnp0 >= 1)",
    "pass_ == 0 or (ij == tij[gt] and forward == tfw[gt] and left == tlf[gt])",
    "pass_ == 0 or (fw_next_ij(%s) == start_ij and fw_next_fw(%s) == start_forward)" % (_ST("gT - 1"), _ST("gT - 1")),
    # the fact the main contract of _follow assumes at its loop head - here it is an invariant
    "pass_ == 0 or npoints < (points.shape[0] - 2) // 2 or (npoints == (points.shape[0] - 2) // 2 and prev_forward == forward)",
    # (always true: names the trace indices at which the quantified facts above are to be used)
    "trig(0) and trig(gt) and trig(gt - 1) and trig(gt - 2) and trig(gT - 1) and trig(gT - 2)",
]
Contract(
    M, "_follow@retrace", {"regions": "i1", "visited": "i1", "nx": "int", "ny": "int", "ij": "int", "hole": "bool"},
    ghost_params={"tij": "i1", "tfw": "i1", "tlf": "i1", "tnp": "i1"},
    lets=[("n0", "nx * ny")],
    requires=["nx >= 2 and ny >= 1", "regions.shape[0] == n0 and visited.shape[0] == n0", "0 <= ij and ij < n0"],
    modifies=("visited", "tij", "tfw", "tlf", "tnp"),
    result=("int", "f2"),
    ensures=["result[0] == regions[ij]"],
    loops={1: LoopSpec("while", inv=_RETR, cut=[
        # the code's step is the spec step (gij, gfw, glf: the state at the point where ijnext is computed)
        "ij == fw_next_ij(%s) and forward == fw_next_fw(%s) and left == fw_next_lf(%s) and prev_forward == gfw" % (_CUR, _CUR, _CUR),
    ], post=[
        "n == nx * ny and visited.shape[0] == n and npoints >= 1 and gt >= 1",
        "ij == start_ij and 0 <= ij and ij < n and regions[ij] == region",
        "pass_ == 1 or (tnp[gt - 1] == npoints and fw_next_ij(%s) == start_ij and fw_next_fw(%s) == start_forward)"
        % (_ST("gt - 1"), _ST("gt - 1")),
        "pass_ == 1 or (" + " and ".join("(%s)" % x for x in _RETR[6:10]) + ")",
    ])},
    ghost={"after_assign": {
        "region<-regions[ij]": ["gt = 0\ngT = 0\ngnp0 = 0"],
        "start_forward<-forward": ["start_left = left"],
        "npoints<-0": ["gT = gt\ngnp0 = tnp[gt - 1] if gt > 0 else 0\ngt = 0"],
        "ijnext<-ij + forward": [
            "gij = ij\ngfw = forward\nglf = left",
            "if pass_ == 0:\n    tij[gt] = ij\n    tfw[gt] = forward\n    tlf[gt] = left\n    tnp[gt] = npoints",
            "gt = gt + 1",
            "assert trig(0) and trig(gt) and trig(gt - 1) and trig(gt - 2) and trig(gt - 3) and trig(gT - 1) and trig(gT - 2)",
        ],
    }},
    options={"ghost_spec_mode": True},
    props=("C15",), native={"skip": True},
    notes="discharges the retrace assumption of the main _follow contract",
)
