"""Sidecar contracts for xarray-spatial (one module per source file) and the
single-source spec functions (specs.py).  Importing `contracts.all` registers
everything in pyvc.contract.REGISTRY."""
