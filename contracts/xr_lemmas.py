"""Derived facts about the transcendental symbols that are used as axioms elsewhere, proved here from the primitive axioms."""
import z3
from pyvc import xr
from pyvc.contract import Lemma


def sqrt_sq(S):
    d, s = z3.Reals("sd ss")
    return [("sqrt_sq", [d >= 0, s >= 0, s * s == d * d], s == d)]


Lemma("XR.sqrt_sq", sqrt_sq, props=("C06", "C14"), notes="sqrt(d*d) = d for d >= 0 follows from sqrt(x) >= 0 and sqrt(x)^2 = x")
