"""Per-property configuration of the checks (what is proved, bounded, assumed)."""

PROPS = {}

PROPS["C18"] = dict(
    producers=[("pyvc.wrapper_check", "wrapper_items")],
    level="proof",
    technique="contract-based deductive verification: loop invariants on the real _trim/_crop (pyvc VCs -> z3), wrapper term check",
    not_decided=["degenerate raster with no kept cell: only in-range bounds are required of the result"],
    assumptions=["xarray basic slicing raster[a:b, c:d] is a view with matching coordinate slices and the same attrs (assumed contract, DESIGN 3)"],
    trusted_base=[],
)

PROPS["C08"] = dict(
    producers=[("pyvc.wrapper_check", "wrapper_items")],
    level="proof",
    technique="contract-based deductive verification: loop invariants + documented-formula postconditions on the real slope/aspect/curvature kernels (pyvc VCs -> z3, XR float model), lemmas over the spec functions",
    not_decided=["bit-level float32 rounding of the results (slope <= 90 is proved in real arithmetic as < 90.0000009)"],
    assumptions=["transcendental functions are uninterpreted with listed real-analysis axioms (sqrt, atan range/sign, atan2 quadrants, sin^2+cos^2=1)"],
    trusted_base=[],
)

PROPS["C13"] = dict(
    producers=[("pyvc.wrapper_check", "wrapper_items")],
    level="proof",
    technique="contract-based deductive verification: per-cell postconditions (band formula, NaN iff zero denominator) on the real spectral kernels (pyvc VCs -> z3, XR float model); exact IEEE float32 lemmas for the normalised difference",
    not_decided=["'single precision': Numba evaluates 2.0*red etc. in float64 and rounds on store; only the XR value is proved"],
    assumptions=["ARVI and SAVI follow the library's own documented/tested formulas (ARVI '+blue', SAVI divided by (1+L)), recorded as observations"],
    trusted_base=[],
)

PROPS["C12"] = dict(
    producers=[("pyvc.wrapper_check", "wrapper_items")],
    level="proof",
    technique="contract-based deductive verification: binary-search loop invariant + first-bin postcondition on the real _cpu_bin, per-cell postcondition on _cpu_binary (pyvc VCs -> z3)",
    not_decided=["Jenks optimality (bounded)", "exact float behaviour of np.percentile interpolation"],
    assumptions=[],
    trusted_base=[],
    bounded=[("c12_classifiers", {"quick": 25, "thorough": 240}), ("c12_natural_breaks", {"quick": 25, "thorough": 200, "jit": True}),
             ("c12_natural_breaks_near_duplicates", {"quick": 15, "thorough": 60, "jit": True})],
)

PROPS["C09"] = dict(
    producers=[("pyvc.wrapper_check", "wrapper_items")],
    level="proof",
    technique="contract-based deductive verification: ghost-window and partial-sum loop invariants on the real focal / convolution kernels (pyvc VCs -> z3, XR float model; reducers uninterpreted)",
    not_decided=[],
    assumptions=["np.nanmean/nansum/nanmin/nanmax/nanstd/nanvar are functions of the multiset of non-NaN elements of the window they are given (assumed NumPy contract)"],
    trusted_base=[],
)
