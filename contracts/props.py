"""Per-property configuration of the checks (what is proved, bounded, assumed)."""

PROPS = {}

PROPS["C18"] = dict(
    level="proof",
    technique="contract-based deductive verification: loop invariants on the real _trim/_crop (pyvc VCs -> z3), wrapper term check",
    not_decided=["degenerate raster with no kept cell: only in-range bounds are required of the result"],
    assumptions=["xarray basic slicing raster[a:b, c:d] is a view with matching coordinate slices and the same attrs (assumed contract, DESIGN 3)"],
    trusted_base=[],
)
