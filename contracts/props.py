"""Per-property configuration of the checks (what is proved, bounded, assumed)."""

PROPS = {}

PROPS["C18"] = dict(
    producers=[("pyvc.wrapper_check", "wrapper_items")],
    level="proof",
    technique="contract-based deductive verification: loop invariants on the real _trim/_crop (pyvc VCs -> z3), wrapper term check",
    not_decided=["degenerate raster with no kept cell: only in-range bounds are required of the result"],
    assumptions=["xarray basic slicing raster[a:b, c:d] is a view with matching coordinate slices and the same attrs (assumed contract, DESIGN 3)"],
    trusted_base=[],
)

PROPS["C08"] = dict(
    producers=[("pyvc.wrapper_check", "wrapper_items")],
    level="proof",
    technique="contract-based deductive verification: loop invariants + documented-formula postconditions on the real slope/aspect/curvature kernels (pyvc VCs -> z3, XR float model), lemmas over the spec functions",
    not_decided=["bit-level float32 rounding of the results (slope <= 90 is proved in real arithmetic as < 90.0000009)"],
    assumptions=["transcendental functions are uninterpreted with listed real-analysis axioms (sqrt, atan range/sign, atan2 quadrants, sin^2+cos^2=1)"],
    trusted_base=[],
)

PROPS["C13"] = dict(
    producers=[("pyvc.wrapper_check", "wrapper_items")],
    level="proof",
    technique="contract-based deductive verification: per-cell postconditions (band formula, NaN iff zero denominator) on the real spectral kernels (pyvc VCs -> z3, XR float model); exact IEEE float32 lemmas for the normalised difference",
    not_decided=["'single precision': Numba evaluates 2.0*red etc. in float64 and rounds on store; only the XR value is proved"],
    assumptions=["ARVI and SAVI follow the library's own documented/tested formulas (ARVI '+blue', SAVI divided by (1+L)), recorded as observations"],
    trusted_base=[],
)

PROPS["C12"] = dict(
    producers=[("pyvc.wrapper_check", "wrapper_items")],
    level="proof",
    technique="contract-based deductive verification: binary-search loop invariant + first-bin postcondition on the real _cpu_bin, per-cell postcondition on _cpu_binary (pyvc VCs -> z3)",
    not_decided=["Jenks optimality (bounded)", "exact float behaviour of np.percentile interpolation"],
    assumptions=[],
    trusted_base=[],
    bounded=[("c12_classifiers", {"quick": 25, "thorough": 240}), ("c12_natural_breaks", {"quick": 25, "thorough": 200, "jit": True}),
             ("c12_natural_breaks_near_duplicates", {"quick": 15, "thorough": 60, "jit": True})],
)

PROPS["C09"] = dict(
    producers=[("pyvc.wrapper_check", "wrapper_items"), ("pyvc.table_check", "table_items")],
    level="proof",
    technique="contract-based deductive verification: ghost-window and partial-sum loop invariants on the real focal / convolution kernels (pyvc VCs -> z3, XR float model; reducers uninterpreted)",
    not_decided=[],
    assumptions=["np.nanmean/nansum/nanmin/nanmax/nanstd/nanvar are functions of the multiset of non-NaN elements of the window they are given (assumed NumPy contract)"],
    trusted_base=[],
)

PROPS["C10"] = dict(
    producers=[("pyvc.frame_check", "frame_items"), ("pyvc.wrapper_check", "wrapper_items")],
    level="proof",
    technique="contract-based frame conditions: static may-alias/modification analysis of the real source (modifies / fresh-result per public function), kernel frame obligations from pyvc, wrapper identity terms",
    not_decided=["memory sharing through xarray coordinate objects (assumed xarray contract: the constructor wraps coords without exposing the input's buffers)"],
    assumptions=["NumPy/Numba astype/copy/flatten/arithmetic results are fresh; ravel/reshape/basic slices/.data/.values/np.asarray may alias (conservative)",
                 "user-supplied reducers (focal apply func, zonal custom stats) do not write their argument",
                 "xr.DataArray(data, coords=c, dims=d, attrs=a) has those dims/coords and a shallow copy of a"],
    trusted_base=[],
    allow_no_contracts=True,
    bounded=[("c10_inputs_untouched", {"quick": 40, "thorough": 300})],
)
PROPS["C11"] = dict(
    producers=[("pyvc.frame_check", "frame_items")],
    level="proof",
    technique="contract-based frame conditions over the whole package: no function writes module/closure/default state, jitted globals bound once, no cache/parallel jit options, RNG draws dominated by seeding; history independence follows by induction over the call sequence (stated meta-lemma)",
    not_decided=["Numba's dispatcher cache and the thread scheduler themselves (assumed)",
                 "bump() draws from the unseeded global RNG by design (it has no seed parameter); not claimed"],
    assumptions=["meta-lemma: if no call writes state that a later call reads, every call's result is a function of its arguments"],
    trusted_base=[],
    allow_no_contracts=True,
    bounded=[("c11_history_vs_fresh_process", {"quick": 75, "thorough": 600, "jit": True})],
)

PROPS["C01"] = dict(
    producers=[("pyvc.wrapper_check", "wrapper_items")],
    level="proof",
    technique="contract-based: kernel postconditions (reused), halo lemmas over the spec functions, wrapper terms (same kernel and parameters on both backends, halo depth = stencil radius, NaN boundary, global statistics outside the mapped function, result lazy) - relative to the assumed Dask contracts; end-to-end equality bounded",
    not_decided=["Dask's own block / halo / scheduling semantics (assumed contract, exercised by the bounded stand-in)",
                 "halo lemma for focal mean (fixed 3x3 window, several passes): bounded only; for convolution_2d and focal apply with symbolic kernel shapes it is proved (lemmas C01.halo.convolution - base + step of the inductions over the window - and C01.halo.focal_window)",
                 "float rounding of differently ordered global reductions (hotspots, true_color, perlin, generate_terrain)",
                 ],
    assumptions=["x.map_overlap(f, depth=(dy,dx), boundary=nan) applies f to each block extended by dy/dx cells of neighbouring data (NaN outside) and trims the halo; da.map_blocks applies f to corresponding blocks of identically chunked arrays; task order and worker count do not affect pure tasks"],
    trusted_base=[],
    bounded=[("c01_dask_equals_numpy", {"quick": 60, "thorough": 600})],
)

PROPS["C19"] = dict(
    producers=[("pyvc.wrapper_check", "wrapper_items"), ("pyvc.table_check", "table_items")],
    bounded=[("c19_distance_strings_and_sphere", {"quick": 15, "thorough": 90})],
    level="proof",
    technique="contract-based: postconditions on the real distance functions and _ellipse_kernel (pyvc VCs -> z3), metric lemmas (NRA/LRA) over the spec functions, NIA lemma inner ellipse within outer ellipse",
    not_decided=["great-circle triangle inequality (spherical trigonometry beyond the axiom set): bounded",
                 "great-circle distance zero only for coincident points: bounded",
                 "splitting of distance strings by the regular expression: bounded (generated grammar)"],
    assumptions=["np.linspace(-h, h, 2h+1)[i] == -h + i", "trigonometric identities used as axioms: sin^2+cos^2=1, cos(u)cos(v) = (cos(u-v)+cos(u+v))/2, cos t = 1 - 2 sin^2(t/2), sin odd, cos even, asin range"],
    trusted_base=[],
)

PROPS["C02"] = dict(
    producers=[("pyvc.table_check", "table_items"), ("pyvc.table_check", "call_items")],
    level="proof",
    technique="contract-based: loop invariants on the real _strides and _calc_stats (pyvc VCs -> z3; reducers and NumPy mask-filter uninterpreted under assumed contracts); table-level statement bounded against a per-zone reference",
    not_decided=["np.argsort/np.unique/boolean-mask semantics (assumed NumPy contracts)", "assembly of the pandas/xarray result in _stats_numpy (bounded)"],
    assumptions=["np.unique(a) = strictly ascending distinct elements of a; np.argsort(a) is a permutation sorting a with -inf first and +inf, NaN last",
                 "a[mask] keeps exactly the elements where mask is true, in order (function of mask and a)"],
    trusted_base=[],
    bounded=[("c02_zonal_stats", {"quick": 30, "thorough": 300})],
)
PROPS["C04"] = dict(
    producers=[("pyvc.table_check", "table_items")],
    level="proof",
    technique="contract-based: _strides post-condition (run ends of sorted categories) + running-offset invariant of _single_zone_crosstab_2d; table-level statement bounded against a direct contingency count",
    not_decided=["3-D aggregates of an empty cell set (max/min/mean of nothing) are degenerate and not claimed"],
    assumptions=["np.sort / np.unique assumed contracts"],
    trusted_base=[],
    bounded=[("c04_crosstab", {"quick": 30, "thorough": 300})],
)
PROPS["C03"] = dict(
    producers=[("pyvc.table_check", "table_items"), ("pyvc.table_check", "call_items")],
    level="proof",
    technique="contract-based: block-level contracts (_strides, _calc_stats with the global unique_zones) and combiner lemmas (sum/count/sum-of-squares -> mean/var/std; max/min) relative to the assumed Dask contracts; table equality bounded over independent chunkings",
    not_decided=["Dask delayed/from_delayed/to_delayed semantics (assumed)", "float rounding of sum/mean/std/var across blocks"],
    assumptions=["to_delayed().ravel() enumerates blocks in row-major block order; zip pairs blocks covering the same cells once chunks are equal (validate_arrays)"],
    trusted_base=[],
    bounded=[("c03_zonal_stats_dask", {"quick": 45, "thorough": 400}), ("c03_crosstab_dask", {"quick": 45, "thorough": 400})],
)

PROPS["C17"] = dict(
    producers=[("pyvc.table_check", "table_items"), ("pyvc.table_check", "call_items")],
    level="proof",
    technique="contract-based deductive verification of the per-cell loops extracted mechanically from the real operators (fragment "
              "= last top-level for of the function; pyvc VCs -> z3): lesser/equal/greater_frequency (recursive counting specs, partition "
              "lemma), lowest/highest_position (1-based first extreme), cell_stats (table entry applied to the cell's own row), rank (NaN "
              "rule, membership, extremes); index bookkeeping (row-major nditer, reshape width, reducer table) on the normalised AST; "
              "bounded differential check of all nine operators against per-cell definitions",
    not_decided=["combine (dict of tuples, first-occurrence numbering) and popularity (Counter / tie rule): bounded only",
                 "rank for 1 < ref < number of layers ('exactly ref-1 smaller values' needs a multiset model of sort): bounded only",
                 "the reducers behind cell_stats' table entries (np.max, np.mean, ...) are uninterpreted functions of the row"],
    assumptions=["np.nditer(ops, order='C') visits elements in row-major order; np.reshape(v, (-1, w))[r, c] = v[r*w + c]",
                 "Python contracts assumed: min/max of a NaN-free non-empty sequence is a bounding element; seq.index(v) is the first equal position; "
                 "seq.sort() leaves a non-decreasing rearrangement",
                 "fragment extraction drops: argument validation, the nditer enumeration, np.array / np.reshape / DataArray wrapping"],
    trusted_base=[],
    bounded=[("c17_local_operators", {"quick": 30, "thorough": 300})],
)

PROPS["C06"] = dict(
    producers=[("pyvc.wrapper_check", "wrapper_items")],
    level="proof",
    technique="contract-based deductive verification (pyvc VCs -> z3): distance dispatch and compass bearing post-conditions; ghost-witness "
              "invariant of the real line sweep _process_proximity_line; the four-sweep glue _process._process_numpy (nested jitted closure, "
              "all 16 loops, four modular calls of the line sweep with ghost witnesses saved per cell): every non-NaN distance is the "
              "distance to an actual target within max_distance, targets have distance 0, allocation / direction are computed from that "
              "same witness and are NaN exactly where the distance is; metric lemmas; nearest-ness (exactness / completeness) bounded "
              "(exhaustive small grids)",
    not_decided=["exactness / completeness of the four-sweep propagation beyond the enumerated grids (known approximation): bounded",
                 "GREAT_CIRCLE inside the sweep and the glue (contracts cover the planar metrics): bounded",
                 "float32 storage of distances / allocation values (machine arithmetic treated as mathematical; see the known finding)"],
    assumptions=[],
    trusted_base=[],
    bounded=[("c06_proximity_soundness", {"quick": 40, "thorough": 400}), ("c06_proximity_exact_small_grids", {"quick": 60, "thorough": 900}),
             ("c06_allocation_reports_exact_value", {"quick": 15, "thorough": 60})],
    timeout=200,
)
PROPS["C07"] = dict(
    producers=[("pyvc.table_check", "call_items"), ("pyvc.wrapper_check", "wrapper_items")],
    level="exploration",
    technique="bounded: chunked == whole-raster over random chunkings.  Contract-level obligations: halo / fallback arithmetic and the map_overlap call of _process_dask, "
              "chunk-aligned coordinate grids and the shared block function in _process (normalised-source checks), halo-width lemma (a target k cells away with "
              "k*cellsize <= max_distance lies inside int(max_distance/cellsize + 0.5) cells).  What the block function does on any block is the C06 glue contract: "
              "every non-NaN output of a chunk names an actual target of its padded block",
    not_decided=["that the sweep heuristic on a padded block reproduces the whole-raster result is a relational fact about an approximate algorithm; no contract within reach expresses it - bounded only"],
    assumptions=["Dask map_overlap contract as in C01"],
    trusted_base=[],
    allow_no_contracts=True,
    bounded=[("c07_chunked_proximity", {"quick": 60, "thorough": 600})],
)

PROPS["C14"] = dict(
    producers=[("pyvc.table_check", "call_items"), ("pyvc.wrapper_check", "wrapper_items")],
    level="proof",
    technique="contract-based: post-conditions / loop invariants on the real A* helpers (crossability, bounds, pixel distance, minimum-cost open cell, nearest crossable cell, path reconstruction), the search loop itself in two contracts of the same function (structural invariant: parents are closed crossable neighbours and distances add the step length; relaxation invariant: no cheaper route into an open cell is ever ignored) and the cell-lookup arithmetic lemma (pyvc VCs -> z3); optimality and existence bounded against Dijkstra",
    not_decided=["optimality of the returned route and 'route exists => found' (the relaxation invariant is the local half; the global half needs a shortest-path ghost over all routes and a consistent-heuristic argument): bounded, exhaustive on 3x3",
                 "float rounding inside _get_pixel_id (proved in real arithmetic; fractional steps / offsets bounded)"],
    assumptions=[],
    trusted_base=[],
    bounded=[("c14_a_star_small_grids", {"quick": 60, "thorough": 1200}), ("c14_a_star_random", {"quick": 40, "thorough": 400})],
)

PROPS["C16"] = dict(
    producers=[("pyvc.wrapper_check", "wrapper_items"), ("pyvc.table_check", "call_items")],
    level="proof",
    technique="contract-based deductive verification of the real two-pass labelling kernel _area_connectivity (pyvc VCs -> z3): loop "
              "invariants over both passes and the relabelling loops with a ghost labelling parameter; postconditions: NaN cells stay NaN, "
              "labels >= 1, n-adjacent equal cells share a label, cells sharing a label share the class of every adjacency-closed "
              "labelling; path lemma (base + step); wrapper term check (kernel arguments, neighbourhood validation, coords/dims/attrs); "
              "flood-fill comparison as bounded stand-in",
    not_decided=["rasters outside the contract's domain: +-inf cells (np.abs(inf - inf) is NaN, so two adjacent inf cells never match) and "
                 "value sets on which the kernel's isclose test (atol 1e-8, rtol 1e-5) is not equality, e.g. integers above 1e5 one apart: bounded only",
                 "labels are stored in an array of the input's dtype: float32 rasters with more than 2**24 regions, small integer dtypes (machine arithmetic treated as mathematical)"],
    assumptions=["np.where(c)[0] of a 1-D boolean array lists exactly its true indices in increasing order (assumed NumPy contract)",
                 "meta-argument (DESIGN): induction over the path for 'connected => same label' (base and step are lemma C16.path); the "
                 "connected-component labelling itself is adjacency-closed, which instantiates the ghost parameter for 'same label => connected'"],
    trusted_base=[],
    bounded=[("c16_regions_small_grids", {"quick": 60, "thorough": 900}), ("c16_regions_random", {"quick": 30, "thorough": 300})],
)
PROPS["C15"] = dict(
    producers=[("pyvc.table_check", "call_items")],
    level="exploration",
    timeout=300,
    technique="mixed.  Contract-based deductive verification (pyvc VCs -> z3) of polygonize's first stage on the real code: "
              "_calculate_regions (both the masked and the unmasked typing) labels exactly the connected regions of equal value - masked "
              "cells 0, others >= 1, equal labels only inside a class of every adjacency-closed labelling (ghost), every cell joined with "
              "its equal W/S/SW/SE neighbours (under a prophecy ghost labelling) - on top of _merge_regions (merge forest: links "
              "descend, classes preserved and joined, resize) and the helpers (_transform_points, _min_and_max, _diff_row, "
              "_outside_domain), and _follow (the boundary walk stays on its region inside the raster, stored vertices are grid corners, "
              "consecutive ones and the closing edge are axis-parallel and non-degenerate, the ring is closed; cvc5 discharges the row "
              "arithmetic).  Losslessness, orientation, area, hole attribution are bounded: point-in-polygon "
              "rasterisation round trip, exhaustive over small rasters and random larger ones (JIT on)",
    not_decided=["losslessness / orientation / area / hole attribution are topological facts about the boundary walk as a whole (_scan; that _follow returns to its start enclosing exactly the region): bounded only",
                 "rasters outside the labelling contract's domain (non-finite values, values on which the isclose test is not equality): bounded only",
                 "more than 2**32 - 1 provisional region ids (RuntimeError by design)"],
    assumptions=["_follow: the second pass retraces the first (buffer size): assumed at the loop head of pass 1 in the main contract, proved as an invariant by the second contract _follow@retrace (ghost trace of pass 0)",
                 "_is_close (numba generated_jit dispatcher) is trusted: its two lambdas are pinned on the AST; on the domain both mean equality",
                 "prophecy argument: the completeness postcondition holds for every region-id labelling dd under `dd == the flattened lookup`; "
                 "instantiating dd with the lookup the function computes discharges the premise (DESIGN section 4, C15)"],
    trusted_base=[],
    bounded=[("c15_polygonize_small_grids", {"quick": 60, "thorough": 900, "jit": True}), ("c15_polygonize_random", {"quick": 40, "thorough": 400, "jit": True})],
)
PROPS["C05"] = dict(
    producers=[("pyvc.wrapper_check", "wrapper_items")],
    level="exploration",
    technique="bounded: viewshed vs an O(n^2) evaluation of the stated line-of-sight model (exhaustive 3x3 prefix + random terrains); contract-level proofs for the geometric helpers the model is built from and for the local operations of the status tree (rotations keep the CLRS link structure and the augmented subtree maxima, node creation, key search, minimum, the successor-payload move of deletion as an extracted fragment)",
    not_decided=["equivalence of the red-black-tree angular sweep with the line-of-sight model (needs a sweep-line argument over a globally well-formed tree): bounded only",
                 "insert / delete / fix-up and the range query of the status tree: their invariants need a global acyclicity ghost (no per-node measure survives a rotation); bounded only"],
    assumptions=[],
    trusted_base=[],
    bounded=[("c05_viewshed_3x3_exhaustive", {"quick": 60, "thorough": 1800}), ("c05_viewshed_random", {"quick": 45, "thorough": 600})],
)
