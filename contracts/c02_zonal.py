"""C02 / C04 / C03 - zonal statistics building blocks."""
from pyvc.contract import Contract, LoopSpec

M = "xrspatial/zonal.py"

# ---- _strides(flatten_zones, unique_zones): for every unique zone id the end of its run in the sorted zone vector
_POST = ("(all(flatten_zones[k] <= unique_zones[%(i)s] for k in range(0, %(s)s[%(i)s])) and "
         "all(flatten_zones[k] > unique_zones[%(i)s] for k in range(%(s)s[%(i)s], n)) and 0 <= %(s)s[%(i)s] and %(s)s[%(i)s] <= n)")
Contract(
    M, "_strides", {"flatten_zones": "f1", "unique_zones": "f1"},
    lets=[("n", "flatten_zones.shape[0]"), ("nz", "unique_zones.shape[0]")],
    requires=[
        "nondecreasing(flatten_zones, n)",                      # sorted, no NaN
        "strictly_ascending(unique_zones, nz)",
        "all(isfinite(unique_zones[i]) for i in range(0, nz))",
        # every element of the sorted vector is one of the unique ids
        "all(any(flatten_zones[k] == unique_zones[i] for i in range(0, nz)) for k in range(0, n))",
    ],
    result="i1",
    ensures=[
        "result.shape[0] == nz",
        "all(%s for i in range(0, nz))" % (_POST % {"i": "i", "s": "result"}),
    ],
    loops={
        0: LoopSpec("for", inv=[
            "0 <= count and count <= n",
            "i > 0 or count == 0",
            "i == 0 or all(flatten_zones[k] <= unique_zones[i - 1] for k in range(0, count))",
            "i == 0 or all(flatten_zones[k] > unique_zones[i - 1] for k in range(count, n))",
            "all(%s for q in range(0, i))" % (_POST % {"i": "q", "s": "strides"}),
        ]),
        1: LoopSpec("while", inv=[
            "0 <= count and count <= n",
            "all(flatten_zones[k] <= unique_zones[i] for k in range(0, count))",
            "i == 0 or all(flatten_zones[k] > unique_zones[i - 1] for k in range(count, n))",
        ], decreases="n - count"),
    },
    props=("C02", "C04", "C03"),
    native={"gen": "gen_strides"},
)

# ---- _calc_stats: one statistic per unique zone over its run of the sorted values
_CS = lambda q: "spec_calc_stat(values_by_zones, zone_breaks, unique_zones, zone_ids, nzi, func, nodata_values, %s)" % q
Contract(
    M, "_calc_stats",
    {"values_by_zones": "f1", "zone_breaks": "i1", "unique_zones": "f1", "zone_ids": "f1", "func": "func", "nodata_values": "float"},
    lets=[("n", "values_by_zones.shape[0]"), ("nz", "unique_zones.shape[0]"), ("nzi", "zone_ids.shape[0]")],
    requires=[
        "zone_breaks.shape[0] == nz",
        "all(0 <= zone_breaks[i] and zone_breaks[i] <= n for i in range(0, nz))",
        "all(zone_breaks[i] <= zone_breaks[j] for i in range(0, nz) for j in range(i, nz))",
    ],
    result="f1",
    ensures=["result.shape[0] == nz",
             "all(same(result[q], %s) for q in range(0, nz))" % _CS("q")],
    loops={0: LoopSpec("for", inv=[
        "results.shape[0] == nz",
        "start == zone_start(zone_breaks, i)",
        "all(same(results[q], %s) for q in range(0, i))" % _CS("q"),
        "all(isnan(results[q]) for q in range(i, nz))",
    ], cut=["same(results[i], %s)" % _CS("i")])},
    props=("C02", "C03"),
    kind="tier2",
    native={"gen": "gen_calc_stats"},
)

# ---- _single_zone_crosstab_2d: the count appended for category j is the length of its run in the sorted valid values,
#      i.e. breaks[j] - breaks[j-1]; the running offset advances over every category (selected or not)
Contract(
    M, "_single_zone_crosstab_2d",
    {"zone_values": "f1", "unique_cats": "f1", "cat_ids": "f1", "nodata_values": "float", "crosstab_dict": "dict"},
    lets=[("nc", "unique_cats.shape[0]")],
    requires=[
        "strictly_ascending(unique_cats, nc)",
        "all(isfinite(unique_cats[i]) for i in range(0, nc))",
        # every valid value of the zone is one of the categories (they were collected from the whole raster)
        "all((not (isfinite(zone_values[k]) and zone_values[k] != nodata_values)) or "
        "any(zone_values[k] == unique_cats[i] for i in range(0, nc)) for k in range(0, zone_values.shape[0]))",
    ],
    modifies=("crosstab_dict",),
    loops={0: LoopSpec("for", index="j", inv=[
        "zone_cat_breaks.shape[0] == nc",
        "cat_start == zone_start(zone_cat_breaks, j)",
    ], cut=[
        # what was appended in this iteration (if anything) is the run length of category j
        "(not any(cat_ids[k] == unique_cats[j] for k in range(0, cat_ids.shape[0]))) or "
        "count == zone_cat_breaks[j] - zone_start(zone_cat_breaks, j)",
    ])},
    types={"count": "int"},
    props=("C04", "C03"),
    kind="tier2",
    native={"gen": "gen_xtab2d"},
    options={"assume_call_requires": {
        ("_strides", 0): "np.sort returns a non-decreasing vector and the masked values are finite (assumed NumPy contracts for np.sort and boolean-mask indexing)",
        ("_strides", 3): "every element of np.sort(a[mask]) is an element of a at a position where the mask holds, hence a category (assumed NumPy contracts)",
    }},
    notes="the dict of lists is an uninterpreted map; the table-level statement is carried by the bounded stand-in c04_crosstab",
)
