"""Tier W contracts: what each public wrapper must hand to which kernel, per backend,
and whose identity (coords / dims / attrs / name) the result must carry.

Expected terms are written in the wrapper's own namespace (names resolve through
the real module's imports and functions) and are compared structurally with the
term obtained by symbolically evaluating the real wrapper (pyvc.wrapper).
`RES(a)` abbreviates get_dataarray_resolution(a).
"""

WRAPPERS = []


def W(key, raster, numpy=None, dask=None, halo=None, props=("C10",), name_param="name", attrs="same", identity=True,
      no_coords=False, notes=""):
    WRAPPERS.append(dict(key=key, raster=raster, numpy=numpy, dask=dask, halo=halo, props=props, name_param=name_param,
                         attrs=attrs, identity=identity, notes=notes))


RX = "get_dataarray_resolution(agg)[0]"
RY = "get_dataarray_resolution(agg)[1]"

# ---- C08 / C01: 3x3 terrain operators: radius (1, 1), NaN boundary, same cell sizes on both backends
W("slope:slope", "agg",
  numpy="_cpu(agg.data, %s, %s)" % (RX, RY),
  dask="agg.data.astype(np.float32).map_overlap(partial(_cpu, cellsize_x=%s, cellsize_y=%s), depth=(1, 1), boundary=np.nan)" % (RX, RY),
  halo=("(1, 1)",), props=("C08", "C01", "C10"))
W("aspect:aspect", "agg",
  numpy="_run_numpy(agg.data)",
  dask="agg.data.astype(np.float32).map_overlap(partial(_run_numpy), depth=(1, 1), boundary=np.nan)",
  halo=("(1, 1)",), props=("C08", "C01", "C10"))
W("curvature:curvature", "agg",
  numpy="_cpu(agg.data.astype(np.float32), (%s + %s) / 2)" % (RX, RY),
  dask="agg.data.astype(np.float32).map_overlap(partial(_cpu, cellsize=(%s + %s) / 2), depth=(1, 1), boundary=np.nan)" % (RX, RY),
  halo=("(1, 1)",), props=("C08", "C01", "C10"))
W("hillshade:hillshade", "agg",
  numpy="_run_numpy(agg.data, azimuth=azimuth, angle_altitude=angle_altitude)",
  dask="agg.data.astype(np.float32).map_overlap(partial(_run_numpy, azimuth=azimuth, angle_altitude=angle_altitude), depth=(1, 1), boundary=np.nan)",
  halo=("(1, 1)",), props=("C08", "C01", "C10"))

# ---- C13 / C01: spectral indices: every band cast to float32 *before* the kernel, band -> kernel-argument order
F4 = ".data.astype('f4')"


def spectral(fn, kernel, bands, scalars=()):
    np_args = ", ".join("%s%s" % (b, F4) for b in bands) + "".join(", %s" % s for s in scalars)
    W("multispectral:%s" % fn, bands[0],
      numpy="%s(%s)" % (kernel, np_args),
      dask="da.map_blocks(%s, %s)" % (kernel, np_args),
      props=("C13", "C01", "C10"))


spectral("arvi", "_arvi_cpu", ["nir_agg", "red_agg", "blue_agg"])
spectral("evi", "_evi_cpu", ["nir_agg", "red_agg", "blue_agg"], ["c1", "c2", "soil_factor", "gain"])
spectral("gci", "_gci_cpu", ["nir_agg", "green_agg"])
spectral("nbr", "_normalized_ratio_cpu", ["nir_agg", "swir2_agg"])
spectral("nbr2", "_normalized_ratio_cpu", ["swir1_agg", "swir2_agg"])
spectral("ndvi", "_normalized_ratio_cpu", ["nir_agg", "red_agg"])
spectral("ndmi", "_normalized_ratio_cpu", ["nir_agg", "swir1_agg"])
spectral("savi", "_savi_cpu", ["nir_agg", "red_agg"], ["soil_factor"])
spectral("sipi", "_sipi_cpu", ["nir_agg", "red_agg", "blue_agg"])
spectral("ebbi", "_ebbi_cpu", ["red_agg", "swir_agg", "tir_agg"])

# ---- C12 / C01
W("classify:binary", "agg",
  numpy="_cpu_binary(agg.data, np.asarray(values))",
  dask="agg.data.map_blocks(partial(_run_numpy_binary, values=values))",
  props=("C12", "C01", "C10"))
W("classify:reclassify", "agg",
  numpy="_cpu_bin(agg.data, np.asarray(bins), np.asarray(new_values))",
  dask="agg.data.map_blocks(partial(_run_numpy_bin, bins=bins, new_values=new_values))",
  props=("C12", "C01", "C10"))
W("classify:quantile", "agg", props=("C10",))
W("classify:equal_interval", "agg", props=("C12", "C01", "C10"),
  numpy="_run_equal_interval(agg, k, module=np)", dask="_run_equal_interval(agg, k, module=da)")
W("classify:natural_breaks", "agg", props=("C12", "C10"), numpy="_run_natural_break(agg, num_sample, k)")

# ---- C09 / C01: halo = kernel half-shape per axis (rows, cols)
HALO = "(kernel.shape[0] // 2, kernel.shape[1] // 2)"
W("convolution:convolution_2d", "agg",
  numpy="_convolve_2d_numpy(agg.data, kernel)",
  dask="agg.data.astype(np.float32).map_overlap(partial(_convolve_2d_numpy, kernel=kernel), depth=%s, boundary=np.nan)" % HALO,
  halo=(HALO,), props=("C09", "C01", "C10"))
W("focal:apply", "raster",
  numpy="_apply_numpy(raster.data, kernel, func)",
  dask="raster.data.astype(np.float32).map_overlap(partial(_apply_numpy, kernel=kernel, func=func), depth=%s, boundary=np.nan)" % HALO,
  halo=(HALO,), props=("C09", "C01", "C10"))
_Z = "(%s - %s) / %s"
_KN = "kernel / kernel.sum()"
W("focal:hotspots", "raster",
  # z-score of the kernel-weighted neighbourhood mean against the *global* mean / std (computed outside the mapped
  # function); convolve_2d is the package's own dispatcher and is inlined from its real source
  numpy="_calc_hotspots_numpy((convolve_2d(raster.data.astype(np.float32), %s) - np.nanmean(raster.data.astype(np.float32))) "
        "/ np.nanstd(raster.data.astype(np.float32)))" % _KN,
  dask="((convolve_2d(raster.data.astype(np.float32), %s) - da.nanmean(raster.data.astype(np.float32))) "
       "/ da.nanstd(raster.data.astype(np.float32))).map_overlap(partial(_calc_hotspots_numpy), depth=%s, boundary=np.nan)"
       % (_KN, HALO),
  halo=("((%s).shape[0] // 2, (%s).shape[1] // 2)" % (_KN, _KN), HALO), props=("C09", "C01", "C10"), name_param=None, attrs="deepcopy")
W("focal:mean", "agg", props=("C10",))

# ---- zonal
W("zonal:regions", "raster", numpy="_area_connectivity(raster.data, n=neighborhood)", props=("C16", "C10"))

# ---- C18: the window is raster[top:bottom+1, left:right+1] of the *values* raster
W("zonal:trim", "raster", identity=False, props=("C18",),
  numpy="raster[_trim(raster.data, values)[0]:_trim(raster.data, values)[1] + 1, _trim(raster.data, values)[2]:_trim(raster.data, values)[3] + 1]")
W("zonal:crop", "values", identity=False, props=("C18",),
  numpy="values[_crop(zones.data, zones_ids)[0]:_crop(zones.data, zones_ids)[1] + 1, _crop(zones.data, zones_ids)[2]:_crop(zones.data, zones_ids)[3] + 1]")

# ---- generators that take a template raster: same dims / coords / attrs
W("perlin:perlin", "agg", props=("C10",))

# ---- C19: circle / annulus kernels in terms of the (proved) ellipse mask
OPAQUE_EXTRA = {"convolution:_get_distance", "proximity:_process", "classify:_run_equal_interval", "classify:_run_natural_break"}
_R = "_get_distance(str(%s))"
_CK = "_ellipse_kernel(int(%s / cellsize_x), int(%s / cellsize_y))"
W("convolution:circle_kernel", None, identity=False, props=("C19",),
  numpy=_CK % (_R % "radius", _R % "radius"))
_KO = _CK % (_R % "outer_radius", _R % "outer_radius")
_KI = _CK % (_R % "inner_radius", _R % "inner_radius")
_PV = "(np.array((%s).shape) - np.array((%s).shape))" % (_KO, _KI)
W("convolution:annulus_kernel", None, identity=False, props=("C19",),
  # outer circle minus the inner circle padded symmetrically (half of the shape difference on each side), zeros outside
  numpy="%s - np.pad(%s, pad_width=((%s[0] // 2, %s[0] // 2), (%s[1] // 2, %s[1] // 2)), mode='constant', constant_values=0)"
        % (_KO, _KI, _PV, _PV, _PV, _PV))


# ---- C06 / C07: the three public functions hand the same arguments to the one driver and differ only in the mode constant;
# the result carries the input's coords / dims / attrs.  (_process is opaque here: its block function is the C06 glue contract.)
for _fn, _mode in (("proximity", "PROXIMITY"), ("allocation", "ALLOCATION"), ("direction", "DIRECTION")):
    W("proximity:%s" % _fn, "raster", name_param=None, props=("C06", "C07", "C10"),
      numpy="_process(raster, x=x, y=y, target_values=target_values, max_distance=max_distance, distance_metric=distance_metric, "
            "process_mode=%s)" % _mode)

# ---- identity of the result (coords / dims / attrs of the input raster) for the remaining raster -> raster functions
W("pathfinding:a_star_search", "surface", name_param=None, props=("C14", "C10"))
W("viewshed:viewshed", "raster", name_param=None, props=("C05", "C10"))
