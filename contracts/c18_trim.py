"""C18 - zonal._trim / zonal._crop return the minimal window.

Top-level postconditions are taken from the property statement: the window is
the smallest rectangle containing every kept cell, where NaN listed in the
exclusion set matches NaN cells (spec `same`).  Loop invariants are derived
from the code: four scans, each a (outer, inner, membership) loop nest with
`break` and a `scan_complete` flag.
"""
from pyvc.contract import Contract, LoopSpec

M = "xrspatial/zonal.py"


def scans(pred_row, pred_col, pred_cell, member_post, member_inv, member_flag_fresh):
    """loop specs for the four scans of _trim/_crop.
    pred_row(y) / pred_col(x): spec expression 'line contains a kept/hit cell'
    pred_cell(y, x): spec expression for one cell."""
    loops = {}
    # (result var, outer var, inner var, ascending?, outer bound, inner bound, line predicate, cell predicate in (outer, inner))
    cfg = [
        ("top", "y", "x", True, "rows", "cols", pred_row, lambda o, i: pred_cell(o, i)),
        ("bottom", "y", "x", False, "rows", "cols", pred_row, lambda o, i: pred_cell(o, i)),
        ("left", "x", "y", True, "cols", "rows", pred_col, lambda o, i: pred_cell(i, o)),
        ("right", "x", "y", False, "cols", "rows", pred_col, lambda o, i: pred_cell(i, o)),
    ]
    for s, (res, ov, iv, asc, ob, ib, line, cell) in enumerate(cfg):
        k = 3 * s
        if asc:
            passed = "all(not %s for q in range(0, %s))" % (line("q"), ov)
            passed_res = "all(not %s for q in range(0, %s))" % (line("q"), res)
            prev = "%s - 1" % ov
            none_left = "all(not %s for q in range(0, %s))" % (line("q"), ob)
        else:
            passed = "all(not %s for q in range(%s + 1, %s))" % (line("q"), ov, ob)
            passed_res = "all(not %s for q in range(%s + 1, %s))" % (line("q"), res, ob)
            prev = "%s + 1" % ov
            none_left = "all(not %s for q in range(0, %s))" % (line("q"), ob)
        loops[k] = LoopSpec("for", inv=[
            "0 <= %s < %s" % (res, ob),
            "scan_complete or %s" % passed,
            "(not scan_complete) or (%s == %s and %s and %s)" % (res, prev, line(res), passed_res),
        ], post=[
            "0 <= %s < %s" % (res, ob),
            # either a line with a kept cell was found and everything before it is empty, or no line has one
            "(%s and %s) or %s" % (line(res), passed_res, none_left),
        ])
        loops[k + 1] = LoopSpec("for", inv=[
            "not scan_complete",
            "all(not %s for q in range(0, %s))" % (cell(ov, "q"), iv),
        ], post=[
            "scan_complete == %s" % line(ov),
        ])
        loops[k + 2] = LoopSpec("for", index="k", inv=member_inv, post=member_post)
    return loops


# ---------------------------------------------------------------------------- _trim
_trim_loops = scans(
    pred_row=lambda y: "row_has_kept(data, %s, cols, excludes, ne)" % y,
    pred_col=lambda x: "col_has_kept(data, %s, rows, excludes, ne)" % x,
    pred_cell=lambda y, x: "kept(data, %s, %s, excludes, ne)" % (y, x),
    member_inv=["not is_nodata", "all(not same(excludes[q], val) for q in range(0, k))"],
    member_post=["is_nodata == any(same(excludes[q], val) for q in range(0, ne))"],
    member_flag_fresh=True,
)

ANY_KEPT = "any(row_has_kept(data, q, cols, excludes, ne) for q in range(0, rows))"

Contract(
    M, "_trim", {"data": "f2", "excludes": "f1"},
    lets=[("rows", "data.shape[0]"), ("cols", "data.shape[1]"), ("ne", "excludes.shape[0]")],
    requires=["rows >= 1", "cols >= 1"],
    result=("int", "int", "int", "int"),
    ensures=[
        "0 <= result[0] < rows and 0 <= result[1] < rows and 0 <= result[2] < cols and 0 <= result[3] < cols",
        # top: first row holding a kept cell
        "(not %s) or (row_has_kept(data, result[0], cols, excludes, ne) and "
        "all(not row_has_kept(data, q, cols, excludes, ne) for q in range(0, result[0])))" % ANY_KEPT,
        # bottom: last such row
        "(not %s) or (row_has_kept(data, result[1], cols, excludes, ne) and "
        "all(not row_has_kept(data, q, cols, excludes, ne) for q in range(result[1] + 1, rows)))" % ANY_KEPT,
        # left / right: first / last column holding a kept cell
        "(not %s) or (col_has_kept(data, result[2], rows, excludes, ne) and "
        "all(not col_has_kept(data, q, rows, excludes, ne) for q in range(0, result[2])))" % ANY_KEPT,
        "(not %s) or (col_has_kept(data, result[3], rows, excludes, ne) and "
        "all(not col_has_kept(data, q, rows, excludes, ne) for q in range(result[3] + 1, cols)))" % ANY_KEPT,
    ],
    loops=_trim_loops,
    props=("C18",),
    notes="degenerate case (no kept cell): only in-range bounds are required (DESIGN C18)",
)

# ---------------------------------------------------------------------------- _crop
_crop_loops = scans(
    pred_row=lambda y: "row_has_hit(data, %s, cols, values, nv)" % y,
    pred_col=lambda x: "col_has_hit(data, %s, rows, values, nv)" % x,
    pred_cell=lambda y, x: "hit(data, %s, %s, values, nv)" % (y, x),
    member_inv=["all(not (values[q] == val) for q in range(0, k))"],
    member_post=None,
    member_flag_fresh=False,
)
# in _crop the membership loop sets scan_complete directly
for _k in (2, 5, 8, 11):
    _crop_loops[_k] = LoopSpec("for", index="k", inv=[
        "not scan_complete",
        "all(not (values[q] == val) for q in range(0, k))",
    ], post=[
        "scan_complete == any(values[q] == val for q in range(0, nv))",
    ])
for _k, (_ov, _iv, _cell) in {1: ("y", "x", "hit(data, y, q, values, nv)"), 4: ("y", "x", "hit(data, y, q, values, nv)"),
                              7: ("x", "y", "hit(data, q, x, values, nv)"), 10: ("x", "y", "hit(data, q, x, values, nv)")}.items():
    _crop_loops[_k] = LoopSpec("for", inv=[
        "not scan_complete",
        "all(not %s for q in range(0, %s))" % (_cell, _iv),
    ], post=_crop_loops[_k].post)

ANY_HIT = "any(row_has_hit(data, q, cols, values, nv) for q in range(0, rows))"

Contract(
    M, "_crop", {"data": "f2", "values": "f1"},
    lets=[("rows", "data.shape[0]"), ("cols", "data.shape[1]"), ("nv", "values.shape[0]")],
    requires=["rows >= 1", "cols >= 1"],
    result=("int", "int", "int", "int"),
    ensures=[
        "0 <= result[0] < rows and 0 <= result[1] < rows and 0 <= result[2] < cols and 0 <= result[3] < cols",
        "(not %s) or (row_has_hit(data, result[0], cols, values, nv) and "
        "all(not row_has_hit(data, q, cols, values, nv) for q in range(0, result[0])))" % ANY_HIT,
        "(not %s) or (row_has_hit(data, result[1], cols, values, nv) and "
        "all(not row_has_hit(data, q, cols, values, nv) for q in range(result[1] + 1, rows)))" % ANY_HIT,
        "(not %s) or (col_has_hit(data, result[2], rows, values, nv) and "
        "all(not col_has_hit(data, q, rows, values, nv) for q in range(0, result[2])))" % ANY_HIT,
        "(not %s) or (col_has_hit(data, result[3], rows, values, nv) and "
        "all(not col_has_hit(data, q, rows, values, nv) for q in range(result[3] + 1, cols)))" % ANY_HIT,
    ],
    loops=_crop_loops,
    props=("C18",),
)
