"""C17 - per-cell bodies of the frequency operators, verified on the loop *extracted mechanically* from the real function
(options.fragment): the last top-level `for` of the function becomes a function of its free variables (ref_list: the
reference value per cell, iter_list: one row of layer values per cell, out: the result list).  Dropped by the extraction:
argument validation, the nditer enumeration (checked separately: order='C'), np.array / np.reshape / DataArray wrapping."""
from pyvc.contract import Contract, LoopSpec

M = "xrspatial/local.py"


def freq(fn, cnt):
    cell = lambda q: "(nan if row_has_nan(iter_list, %s, nl) else %s(iter_list, %s, ref_list[%s], nl))" % (q, cnt, q, q)
    Contract(
        M, fn + "@cells", {"ref_list": "i1", "iter_list": "f2", "out": "Lf"},
        lets=[("n", "iter_list.shape[0]"), ("nl", "iter_list.shape[1]")],
        requires=["ref_list.shape[0] == n", "out.shape[0] == 0"],
        modifies=("out",),
        result="f1",
        ensures=["result.shape[0] == n", "all(same(result[q], %s) for q in range(0, n))" % cell("q")],
        loops={
            0: LoopSpec("for", index="k", inv=[
                "out.shape[0] == k",
                "all(same(out[q], %s) for q in range(0, k))" % cell("q"),
            ]),
            1: LoopSpec("for", index="j", inv=["count == %s(iter_list, k, ref, j)" % cnt]),
        },
        options={"fragment": ("toplevel_for", -1)},
        types={"count": "int"},
        props=("C17",),
        native={"skip": True},
    )


freq("lesser_frequency", "count_lt")
freq("equal_frequency", "count_eq")
freq("greater_frequency", "count_gt")


# ---- lowest / highest position: 1-based index of the first minimum / maximum of the cell's layer values, NaN if any is NaN
def position(fn, le, lt):
    first = ("(all(iter_list[q, j] %s iter_list[q, r] for j in range(0, nl)) and all(iter_list[q, j] %s iter_list[q, r] for j in range(0, r)))"
             % (le, lt))
    Contract(
        M, fn + "@cells", {"iter_list": "f2", "out": "Lf"},
        lets=[("n", "iter_list.shape[0]"), ("nl", "iter_list.shape[1]")],
        requires=["out.shape[0] == 0", "nl >= 1"],
        modifies=("out",),
        result="f1",
        ensures=["result.shape[0] == n",
                 "all(isnan(result[q]) == row_has_nan(iter_list, q, nl) for q in range(0, n))",
                 # for a NaN-free cell: result - 1 is an index r whose value is extreme and strictly better than everything before it
                 "all(row_has_nan(iter_list, q, nl) or any(result[q] == r + 1 and %s for r in range(0, nl)) for q in range(0, n))" % first],
        loops={0: LoopSpec("for", index="k", inv=[
            "out.shape[0] == k",
            "all(isnan(out[q]) == row_has_nan(iter_list, q, nl) for q in range(0, k))",
            "all(row_has_nan(iter_list, q, nl) or any(out[q] == r + 1 and %s for r in range(0, nl)) for q in range(0, k))" % first,
        ])},
        options={"fragment": ("toplevel_for", -1)},
        props=("C17",),
        native={"skip": True},
    )


position("lowest_position", ">=", ">")
position("highest_position", "<=", "<")


# ---- cell_stats: the statistic selected from the (separately checked) table `funcs`, applied to the cell's own layer values
Contract(
    M, "cell_stats@cells", {"iter_list": "f2", "out": "Lf", "funcs": "dict", "func": "str:sum"},
    lets=[("n", "iter_list.shape[0]")],
    requires=["out.shape[0] == 0"],
    modifies=("out",),
    result="f1",
    ensures=["result.shape[0] == n", "all(same(result[q], funcs[func](iter_list[q])) for q in range(0, n))"],
    loops={0: LoopSpec("for", index="k", inv=["out.shape[0] == k", "all(same(out[q], funcs[func](iter_list[q])) for q in range(0, k))"])},
    options={"fragment": ("toplevel_for", -1)},
    props=("C17",),
    native={"skip": True},
    notes="funcs[func] is an uninterpreted function of the row (the table itself is a table_check item)",
)


# ---- rank: the ref-th smallest layer value.  Proved here: NaN exactly for a cell with a NaN layer or ref beyond the layer count;
# otherwise the result is one of the cell's own layer values, the minimum for ref == 1 and the maximum for ref == number of layers
# (the sort is an assumed contract without multiplicities, so "exactly ref-1 values are smaller" stays with the bounded stand-in)
_ROW = "old(iter_list[q, j])"
Contract(
    M, "rank@cells", {"ref_list": "i1", "iter_list": "f2", "out": "Lf"},
    lets=[("n", "iter_list.shape[0]"), ("nl", "iter_list.shape[1]")],
    requires=["ref_list.shape[0] == n", "out.shape[0] == 0", "nl >= 1", "all(ref_list[q] >= 1 for q in range(0, n))"],
    modifies=("out", "iter_list"),
    result="f1",
    ensures=["result.shape[0] == n",
             "all(isnan(result[q]) == (row_has_nan(iter_list, q, nl) or ref_list[q] > nl) for q in range(0, n))",
             "all(isnan(result[q]) or any(result[q] == iter_list[q, j] for j in range(0, nl)) for q in range(0, n))",
             "all(isnan(result[q]) or ref_list[q] != 1 or all(result[q] <= iter_list[q, j] for j in range(0, nl)) for q in range(0, n))",
             "all(isnan(result[q]) or ref_list[q] != nl or all(result[q] >= iter_list[q, j] for j in range(0, nl)) for q in range(0, n))"],
    loops={0: LoopSpec("for", index="k", inv=[
        "out.shape[0] == k",
        "all(isnan(out[q]) == (row_has_nan(iter_list, q, nl) or ref_list[q] > nl) for q in range(0, k))",
        "all(isnan(out[q]) or any(out[q] == iter_list[q, j] for j in range(0, nl)) for q in range(0, k))",
        "all(isnan(out[q]) or ref_list[q] != 1 or all(out[q] <= iter_list[q, j] for j in range(0, nl)) for q in range(0, k))",
        "all(isnan(out[q]) or ref_list[q] != nl or all(out[q] >= iter_list[q, j] for j in range(0, nl)) for q in range(0, k))",
    ])},
    options={"fragment": ("toplevel_for", -1)},
    props=("C17",),
    native={"skip": True},
    notes="the in-place sort acts on the row object; the fragment models it on a copy of the row (iter_list is not read afterwards)",
)
