"""C17 - per-cell bodies of the frequency operators, verified on the loop *extracted mechanically* from the real function
(options.fragment): the last top-level `for` of the function becomes a function of its free variables (ref_list: the
reference value per cell, iter_list: one row of layer values per cell, out: the result list).  Dropped by the extraction:
argument validation, the nditer enumeration (checked separately: order='C'), np.array / np.reshape / DataArray wrapping."""
from pyvc.contract import Contract, LoopSpec

M = "xrspatial/local.py"


def freq(fn, cnt):
    cell = lambda q: "(nan if row_has_nan(iter_list, %s, nl) else %s(iter_list, %s, ref_list[%s], nl))" % (q, cnt, q, q)
    Contract(
        M, fn + "@cells", {"ref_list": "i1", "iter_list": "f2", "out": "Lf"},
        lets=[("n", "iter_list.shape[0]"), ("nl", "iter_list.shape[1]")],
        requires=["ref_list.shape[0] == n", "out.shape[0] == 0"],
        modifies=("out",),
        result="f1",
        ensures=["result.shape[0] == n", "all(same(result[q], %s) for q in range(0, n))" % cell("q")],
        loops={
            0: LoopSpec("for", index="k", inv=[
                "out.shape[0] == k",
                "all(same(out[q], %s) for q in range(0, k))" % cell("q"),
            ]),
            1: LoopSpec("for", index="j", inv=["count == %s(iter_list, k, ref, j)" % cnt]),
        },
        options={"fragment": ("toplevel_for", -1)},
        types={"count": "int"},
        props=("C17",),
        native={"skip": True},
    )


freq("lesser_frequency", "count_lt")
freq("equal_frequency", "count_eq")
freq("greater_frequency", "count_gt")
