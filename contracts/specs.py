"""Spec functions: written once in the Python subset pyvc translates to SMT,
and executed natively by CPython for counterexample replay and bounded
stand-ins.  No z3 import here - this file must load under /venv/bin/python.

Conventions: quantifiers are all(...)/any(...) over range(); `isnan`,
`isfinite` are scalar predicates; float comparisons follow IEEE (NaN compares
false), exactly like the XR model.
"""
from math import isnan, isfinite, isinf  # noqa: F401  (native meaning; pyvc has its own)


# ------------------------------------------------------------------ C18 trim / crop
def same(e, v):
    # the property: "NaN counts as excluded when listed" -> NaN matches NaN
    return e == v or (isnan(e) and isnan(v))


def kept(data, y, x, excludes, ne):
    return not any(same(excludes[k], data[y, x]) for k in range(ne))


def row_has_kept(data, y, cols, excludes, ne):
    return any(kept(data, y, x, excludes, ne) for x in range(cols))


def col_has_kept(data, x, rows, excludes, ne):
    return any(kept(data, y, x, excludes, ne) for y in range(rows))


def hit(data, y, x, values, nv):
    return any(values[k] == data[y, x] for k in range(nv))


def row_has_hit(data, y, cols, values, nv):
    return any(hit(data, y, x, values, nv) for x in range(cols))


def col_has_hit(data, x, rows, values, nv):
    return any(hit(data, y, x, values, nv) for y in range(rows))


# ------------------------------------------------------------------ C08 terrain formulas (documented, named geographically)
# row y-1 is "north" of row y; column x+1 is "east" of column x.
def spec_slope(d, y, x, cx, cy):
    # Horn (1981) third-order finite difference, as documented for xrspatial.slope
    dz_dx = ((d[y - 1, x + 1] + 2 * d[y, x + 1] + d[y + 1, x + 1]) - (d[y - 1, x - 1] + 2 * d[y, x - 1] + d[y + 1, x - 1])) / (8 * cx)
    dz_dy = ((d[y - 1, x - 1] + 2 * d[y - 1, x] + d[y - 1, x + 1]) - (d[y + 1, x - 1] + 2 * d[y + 1, x] + d[y + 1, x + 1])) / (8 * cy)
    return atan(sqrt(dz_dx * dz_dx + dz_dy * dz_dy)) * 57.29578


def spec_aspect(d, y, x):
    dz_dx = ((d[y - 1, x + 1] + 2 * d[y, x + 1] + d[y + 1, x + 1]) - (d[y - 1, x - 1] + 2 * d[y, x - 1] + d[y + 1, x - 1])) / 8
    dz_dy = ((d[y + 1, x - 1] + 2 * d[y + 1, x] + d[y + 1, x + 1]) - (d[y - 1, x - 1] + 2 * d[y - 1, x] + d[y - 1, x + 1])) / 8
    if dz_dx == 0 and dz_dy == 0:
        return -1.0
    asp = atan2(dz_dy, -dz_dx) * (180 / pi)
    if asp < 0:
        return 90.0 - asp
    if asp > 90.0:
        return 360.0 - asp + 90.0
    return 90.0 - asp


def spec_curvature(d, y, x, cellsize):
    # Zevenbergen & Thorne: -2 (D + E) * 100 with D, E the second differences along the two axes
    dd = (d[y + 1, x] + d[y - 1, x]) / 2 - d[y, x]
    ee = (d[y, x + 1] + d[y, x - 1]) / 2 - d[y, x]
    return -2 * (dd + ee) * 100 / (cellsize * cellsize)


def is_border(y, x, rows, cols):
    return y == 0 or y == rows - 1 or x == 0 or x == cols - 1


# spec functions that pyvc keeps opaque (uninterpreted symbol + definitional axiom instantiated on demand)
OPAQUE = {"spec_slope", "spec_aspect", "spec_curvature"}


# hillshade: documented illumination formula on central-difference gradients (axis 0 = rows)
def spec_hillshade(d, y, x, azimuth, angle_altitude):
    gx = (d[y + 1, x] - d[y - 1, x]) * 0.5
    gy = (d[y, x + 1] - d[y, x - 1]) * 0.5
    slope = pi / 2.0 - atan(sqrt(gx * gx + gy * gy))
    aspect = atan2(-gx, gy)
    azimuthrad = (360.0 - azimuth) * pi / 180.0
    altituderad = angle_altitude * pi / 180.0
    shaded = sin(altituderad) * sin(slope) + cos(altituderad) * cos(slope) * cos((azimuthrad - pi / 2.0) - aspect)
    return (shaded + 1) / 2


OPAQUE |= {"spec_hillshade"}


# ------------------------------------------------------------------ C13 spectral indices (per cell, scalar)
nan = float("nan")


def ratio(num, den):
    # "a zero denominator gives NaN, never +-inf, and NaN bands propagate"
    if den != 0:
        return num / den
    return nan


def spec_arvi(nir, red, blue):
    # library formula (tests pin '+ blue' in the denominator; Kaufman & Tanre have '- blue': recorded observation)
    return ratio(nir - 2.0 * red + blue, nir + 2.0 * red + blue)


def spec_evi(nir, red, blue, c1, c2, soil_factor, gain):
    return gain * ratio(nir - red, nir + c1 * red - c2 * blue + soil_factor)


def spec_gci(nir, green):
    if green != 0:
        return nir / green - 1
    return nan


def spec_nd(a, b):
    # normalised difference (NDVI, NBR, NBR2, NDMI)
    return ratio(a - b, a + b)


def spec_savi(nir, red, soil_factor):
    # library formula as pinned by the QGIS fixture of the test-suite
    return ratio(nir - red, (nir + red + soil_factor) * (1.0 + soil_factor))


def spec_sipi(nir, red, blue):
    return ratio(nir - blue, nir - red)


def spec_ebbi(red, swir, tir):
    return ratio(swir - red, 10 * sqrt(swir + tir))


def spec_normalize(val, min_val, max_val, pixel_max, c, th):
    norm = (val - min_val) / (max_val - min_val)
    return 1 / (1 + exp(c * (th - norm))) * pixel_max


# ------------------------------------------------------------------ C12 classifiers
def spec_binary(v, values, nv):
    if any(values[k] == v for k in range(nv)):
        return 1.0
    if isfinite(v):
        return 0.0
    return nan


def is_first_bin(bins, k, v):
    # k is the first bin whose upper bound is >= v
    return bins[k] >= v and all(bins[m] < v for m in range(0, k))


def bin_cell_ok(o, v, bins, nbins, new_values):
    if isfinite(v) and v <= bins[nbins - 1]:
        return any(is_first_bin(bins, k, v) and same(o, new_values[k]) for k in range(0, nbins))
    return isnan(o)


def ascending(bins, n):
    # non-strict; also excludes NaN (NaN <= NaN is false)
    return all(bins[i] <= bins[j] for i in range(0, n) for j in range(i, n))


OPAQUE |= {"bin_cell_ok"}


# ------------------------------------------------------------------ C09 focal / convolution
def spec_hotspot(z):
    # Getis-Ord confidence classes: |z| > 2.58 -> 99, > 1.96 -> 95, > 1.65 -> 90, else 0; sign of z; NaN -> 0
    conf = 0
    if abs(z) > 2.58:
        conf = 99
    elif abs(z) > 1.96:
        conf = 95
    elif abs(z) > 1.65:
        conf = 90
    if z > 0:
        return conf
    if z < 0:
        return -conf
    return 0


def conv_row(K, D, a, r, b0, c0, n):
    # sum over t < n of K[a, b0 + t] * D[r, c0 + t], accumulated left to right
    if n <= 0:
        return 0.0
    return conv_row(K, D, a, r, b0, c0, n - 1) + K[a, b0 + n - 1] * D[r, c0 + n - 1]


def conv_win(K, D, r0, c0, ncols, m):
    # kernel-weighted sum over the first m full window rows: rows r0 .. r0+m-1 of D against rows 0 .. m-1 of K
    if m <= 0:
        return 0.0
    return conv_win(K, D, r0, c0, ncols, m - 1) + conv_row(K, D, m - 1, r0 + m - 1, 0, c0, ncols)


RECURSIVE = {"conv_row": "float", "conv_win": "float"}


def excluded(v, excludes, ne):
    return any(same(v, excludes[k]) for k in range(0, ne))


def spec_focal_mean(data, y, x, rows, cols, excludes, ne):
    # full 3x3 window clipped at the raster edge, NaN cells ignored; excluded values pass through untouched
    if excluded(data[y, x], excludes, ne):
        return data[y, x]
    return nanmean(data[max(y - 1, 0):min(y + 2, rows), max(x - 1, 0):min(x + 2, cols)])


OPAQUE |= {"spec_focal_mean"}


def win_cell(data, kernel, y, x, a, b, rows, cols, krows, kcols):
    # value the reducer sees at kernel position (a, b) for output cell (y, x): the input cell under a 1-entry of the
    # kernel centred on (y, x), NaN for every other position (0-entries, positions outside the raster)
    hr = krows // 2
    hc = kcols // 2
    if 0 <= y - hr + a and y - hr + a < rows and 0 <= x - hc + b and x - hc + b < cols and kernel[a, b] == 1:
        return data[y - hr + a, x - hc + b]
    return nan


def focal_window(data, kernel, y, x, rows, cols, krows, kcols):
    return array2(lambda a, b: win_cell(data, kernel, y, x, a, b, rows, cols, krows, kcols), krows, kcols)


# ------------------------------------------------------------------ C19 distance metrics and kernels
def spec_euclid(x1, x2, y1, y2):
    return sqrt((x1 - x2) * (x1 - x2) + (y1 - y2) * (y1 - y2))


def spec_manhattan(x1, x2, y1, y2):
    return abs(x1 - x2) + abs(y1 - y2)


def in_ellipse(i, j, half_w, half_h):
    # offset (j - half_w, i - half_h) from the centre satisfies (x/a)^2 + (y/b)^2 <= 1 with a = half_w, b = half_h
    return ((j - half_w) * half_h) * ((j - half_w) * half_h) + ((i - half_h) * half_w) * ((i - half_h) * half_w) \
        <= (half_w * half_h) * (half_w * half_h)


def spec_great_circle(x1, x2, y1, y2, radius):
    # haversine formula on a sphere of the given radius; longitudes x, latitudes y in degrees
    lat1 = y1 * (pi / 180)
    lon1 = x1 * (pi / 180)
    lat2 = y2 * (pi / 180)
    lon2 = x2 * (pi / 180)
    dlon = lon2 - lon1
    dlat = lat2 - lat1
    a = sin(dlat / 2.0) * sin(dlat / 2.0) + cos(lat1) * cos(lat2) * (sin(dlon / 2.0) * sin(dlon / 2.0))
    return radius * 2 * asin(sqrt(a))


# ------------------------------------------------------------------ C02 / C04 zonal
def strictly_ascending(a, n):
    return all(a[i] < a[j] for i in range(0, n) for j in range(i + 1, n))


def nondecreasing(a, n):
    return all(a[i] <= a[j] for i in range(0, n) for j in range(i, n))


def zone_start(zone_breaks, i):
    # the run of zone i in the sorted value vector starts where the previous run ends
    if i == 0:
        return 0
    return zone_breaks[i - 1]


OPAQUE |= {"spec_calc_stat"}


def spec_calc_stat(values_by_zones, zone_breaks, unique_zones, zone_ids, nzi, func, nodata, i):
    # statistic of exactly the finite, non-nodata values of zone i's run - or NaN when the zone is not selected / has none
    zv = valid_values(values_by_zones[zone_start(zone_breaks, i):zone_breaks[i]], nodata)
    if any(zone_ids[k] == unique_zones[i] for k in range(0, nzi)) and len(zv) > 0:
        return func(zv)
    return nan


# ------------------------------------------------------------------ C06 proximity
def spec_dist(x1, x2, y1, y2, metric):
    # EUCLIDEAN = 0, GREAT_CIRCLE = 1, MANHATTAN = 2 (any other value is treated as MANHATTAN, like the code)
    if metric == 0:
        return spec_euclid(x1, x2, y1, y2)
    if metric == 1:
        return spec_great_circle(x1, x2, y1, y2, 6378137)
    return spec_manhattan(x1, x2, y1, y2)


def spec_direction(x1, x2, y1, y2):
    # compass bearing from (x1, y1) to (x2, y2) in the library's convention: 0 for the cell itself, 90 east, 180 towards
    # larger y, 270 west, 360 towards smaller y
    if x1 == x2 and y1 == y2:
        return 0.0
    d = atan2(-(y2 - y1), x2 - x1) * 57.29578
    if d < 0:
        return 90.0 - d
    if d > 90.0:
        return 360.0 - d + 90.0
    return 90.0 - d


def is_tgt(v, values, nv):
    # default targets: non-zero finite cells; otherwise members of target_values
    if nv == 0:
        return v != 0 and isfinite(v)
    return any(v == values[i] for i in range(0, nv))


OPAQUE |= {"spec_dist", "is_tgt", "spec_direction"}


# ------------------------------------------------------------------ C14 A*
def not_crossable(v, barriers, nb):
    # NaN cells and barrier values cannot be entered
    return isnan(v) or any(v == barriers[i] for i in range(0, nb))


def pdist(x1, y1, x2, y2):
    # euclidean distance in pixel space
    return sqrt((x1 - x2) * (x1 - x2) + (y1 - y2) * (y1 - y2))


OPAQUE |= {"not_crossable"}


# ------------------------------------------------------------------ C05 viewshed geometry
def cross2(ax, ay, bx, by):
    # z-component of (ax, ay) x (bx, by): > 0 when b is counter-clockwise of a (angular span < pi)
    return ax * by - ay * bx


def vs_dx(x, vcol):
    return x - vcol


def vs_dy(y, vrow):
    # sweep angles are measured counter-clockwise with "up" = smaller row index
    return vrow - y


def spec_gradient(row, col, elev, vrow, vcol, velev, ew_res, ns_res):
    # gradient of the line of sight: atan(elevation difference / horizontal distance); columns scale with ew_res, rows with ns_res
    dx = (col - vcol) * ew_res
    dy = (row - vrow) * ns_res
    d2 = dx * dx + dy * dy
    if d2 == 0:
        if elev - velev > 0:
            return pi / 2
        if elev - velev < 0:
            return -pi / 2
        return 0.0
    return atan((elev - velev) / sqrt(d2))


def spec_dist2(row, col, vrow, vcol, ew_res, ns_res):
    return ((col - vcol) * ew_res) * ((col - vcol) * ew_res) + ((row - vrow) * ns_res) * ((row - vrow) * ns_res)


# ------------------------------------------------------------------ C17 local operators (per-cell bodies)
def count_lt(A, r, ref, n):
    # number of layers j < n whose value at cell r is below the reference
    if n <= 0:
        return 0
    return count_lt(A, r, ref, n - 1) + (1 if ref > A[r, n - 1] else 0)


def count_eq(A, r, ref, n):
    if n <= 0:
        return 0
    return count_eq(A, r, ref, n - 1) + (1 if ref == A[r, n - 1] else 0)


def count_gt(A, r, ref, n):
    if n <= 0:
        return 0
    return count_gt(A, r, ref, n - 1) + (1 if ref < A[r, n - 1] else 0)


def row_has_nan(A, r, n):
    return any(isnan(A[r, j]) for j in range(0, n))


RECURSIVE.update({"count_lt": "int", "count_eq": "int", "count_gt": "int"})


# ------------------------------------------------------------------ C16 regions
def rg_before(y1, x1, y, x):
    # row-major order of the scan
    return y1 < y or (y1 == y and x1 < x)


def rg_inb(y, x, rows, cols):
    return 0 <= y and y < rows and 0 <= x and x < cols


def rg_adj(n, dy, dx):
    # (dy, dx) is an offset of the 4- / 8-neighbourhood
    return (dy != 0 or dx != 0) and -1 <= dy and dy <= 1 and -1 <= dx and dx <= 1 and (n == 8 or dy == 0 or dx == 0)


def rg_match(data, y, x, dy, dx, n, rows, cols):
    # the cell at offset (dy, dx) is an n-neighbour inside the raster holding the same (non-NaN) value
    return rg_adj(n, dy, dx) and rg_inb(y + dy, x + dx, rows, cols) and data[y + dy, x + dx] == data[y, x]


def rg_link(A, data, y, x, dy, dx, n, rows, cols):
    return (not rg_match(data, y, x, dy, dx, n, rows, cols)) or A[y + dy, x + dx] == A[y, x]


def rg_closed_at(A, data, y, x, n, rows, cols):
    # labelling A does not separate the cell from any n-neighbour of equal value
    return (rg_link(A, data, y, x, -1, -1, n, rows, cols) and rg_link(A, data, y, x, -1, 0, n, rows, cols)
            and rg_link(A, data, y, x, -1, 1, n, rows, cols) and rg_link(A, data, y, x, 0, -1, n, rows, cols)
            and rg_link(A, data, y, x, 0, 1, n, rows, cols) and rg_link(A, data, y, x, 1, -1, n, rows, cols)
            and rg_link(A, data, y, x, 1, 0, n, rows, cols) and rg_link(A, data, y, x, 1, 1, n, rows, cols))


def rg_closed_back(A, data, y, x, n, rows, cols):
    # ... from any *earlier* (row-major) n-neighbour of equal value
    return (rg_link(A, data, y, x, -1, -1, n, rows, cols) and rg_link(A, data, y, x, -1, 0, n, rows, cols)
            and rg_link(A, data, y, x, -1, 1, n, rows, cols) and rg_link(A, data, y, x, 0, -1, n, rows, cols))


def rg_has_back(data, y, x, n, rows, cols):
    return (rg_match(data, y, x, -1, -1, n, rows, cols) or rg_match(data, y, x, -1, 0, n, rows, cols)
            or rg_match(data, y, x, -1, 1, n, rows, cols) or rg_match(data, y, x, 0, -1, n, rows, cols))


def rg_share(A, data, y, x, dy, dx, n, rows, cols):
    return rg_match(data, y, x, dy, dx, n, rows, cols) and A[y + dy, x + dx] == A[y, x]


def rg_shares_back(A, data, y, x, n, rows, cols):
    # the cell has the label of one of its earlier n-neighbours of equal value
    return (rg_share(A, data, y, x, -1, -1, n, rows, cols) or rg_share(A, data, y, x, -1, 0, n, rows, cols)
            or rg_share(A, data, y, x, -1, 1, n, rows, cols) or rg_share(A, data, y, x, 0, -1, n, rows, cols))


def rg_separated(a, b):
    # np.isclose-style matching (atol 1e-8, rtol 1e-5) coincides with equality on the values of the raster
    return (not (isfinite(a) and isfinite(b))) or (not (abs(a - b) <= 1e-08 + 1e-05 * abs(b))) or a == b


def rg_ny(n, k, y, rows):
    # row of window slot k of the cell (clamped at the border, as the kernel reads it)
    if n == 8:
        if k == 0 or k == 3 or k == 5:
            return max(y - 1, 0)
        if k == 1 or k == 6:
            return y
        return min(y + 1, rows - 1)
    if k == 1:
        return max(y - 1, 0)
    if k == 2:
        return min(y + 1, rows - 1)
    return y


def rg_nx(n, k, x, cols):
    if n == 8:
        if k <= 2:
            return max(x - 1, 0)
        if k <= 4:
            return x
        return min(x + 1, cols - 1)
    if k == 0:
        return max(x - 1, 0)
    if k == 3:
        return min(x + 1, cols - 1)
    return x


def rg_wit(A, data, y, x, n, rows, cols):
    # a cell with an earlier n-neighbour of equal value carries the label of one of them
    return isnan(data[y, x]) or (not rg_has_back(data, y, x, n, rows, cols)) or rg_shares_back(A, data, y, x, n, rows, cols)


# ------------------------------------------------------------------ C05 status structure (array-based red-black tree)
# tree_nodes[v] = (colour, left, right, parent); tree_vals[v] = (key, grad0, grad1, grad2, ang0, ang1, ang2, max_grad);
# NIL is index -1, i.e. the last row (a sentinel whose max_grad is the smallest gradient)
def tn_ptr_ok(v, N):
    return -1 <= v and v < N - 1


def tn_node_ok(v, N):
    return 0 <= v and v < N - 1


def tv_min_grad(tv, v):
    return min(tv[v, 1], tv[v, 2], tv[v, 3])


def is_max3(m, a, b, c):
    return m >= a and m >= b and m >= c and (m == a or m == b or m == c)


def tv_row_finite(tv, v):
    return isfinite(tv[v, 1]) and isfinite(tv[v, 2]) and isfinite(tv[v, 3]) and isfinite(tv[v, 7])


def nid(v, N):
    # row of a node pointer (NIL = -1 is the last row)
    return v if v >= 0 else v + N


# ------------------------------------------------------------------ C15 region labelling of polygonize (flattened cells)
def pz_unm(mask, q):
    # the cell takes part (no mask, or mask true)
    return mask is None or mask[q]


def pz_eq(values, mask, p, q):
    return pz_unm(mask, q) and values[q] == values[p]


def pz_has_W(p, nx):
    return p % nx > 0


def pz_has_S(p, nx):
    return p >= nx


def pz_link(A, values, mask, p, q):
    return (not pz_eq(values, mask, p, q)) or A[q] == A[p]


def pz_back(A, values, mask, c8, nx, p):
    # labelling A joins the cell with its W, S (and for 8-connectivity SW, SE) neighbours of equal value
    return ((not pz_has_W(p, nx)) or pz_link(A, values, mask, p, p - 1)) and \
        ((not pz_has_S(p, nx)) or pz_link(A, values, mask, p, p - nx)) and \
        ((not (c8 and pz_has_S(p, nx) and pz_has_W(p, nx))) or pz_link(A, values, mask, p, p - nx - 1)) and \
        ((not (c8 and pz_has_S(p, nx) and p % nx < nx - 1)) or pz_link(A, values, mask, p, p - nx + 1))


def pz_rlink(dd, regions, values, mask, p, q):
    return (not pz_eq(values, mask, p, q)) or dd[regions[q]] == dd[regions[p]]


def pz_rback(dd, regions, values, mask, c8, nx, p):
    # the same for a labelling dd of the *region ids* found at the cells
    return ((not pz_has_W(p, nx)) or pz_rlink(dd, regions, values, mask, p, p - 1)) and \
        ((not pz_has_S(p, nx)) or pz_rlink(dd, regions, values, mask, p, p - nx)) and \
        ((not (c8 and pz_has_S(p, nx) and pz_has_W(p, nx))) or pz_rlink(dd, regions, values, mask, p, p - nx - 1)) and \
        ((not (c8 and pz_has_S(p, nx) and p % nx < nx - 1)) or pz_rlink(dd, regions, values, mask, p, p - nx + 1))


# ------------------------------------------------------------------ C15 boundary walk: the corner at which the current edge starts
# forward: +1 E (along the S edge), -1 W (along the N edge), +nx N (along the E edge), -nx S (along the W edge); needs nx >= 2
def fw_cx(ij, forward, nx):
    return ij % nx + (1 if (forward == -1 or forward == nx) else 0)


def fw_cy(ij, forward, nx):
    return ij // nx + (1 if (forward == -1 or forward == -nx) else 0)


def fw_along(px, py, qx, qy, heading, g, nx):
    # q = p + g steps in direction `heading`
    return ((heading != 1 or (qx == px + g and qy == py)) and (heading != -1 or (qx == px - g and qy == py))
            and (heading != nx or (qx == px and qy == py + g)) and (heading != -nx or (qx == px and qy == py - g)))


def fw_one_axis(px, py, qx, qy):
    # the two points differ in exactly one coordinate
    return (px == qx and py != qy) or (px != qx and py == qy)


def fw_turn(regions, region, ij, forward, left, nx, n):
    # the turn the walk takes from (ij, forward, left): -1 left, 0 straight, 1 right
    ijn = ij + forward
    ijr = ijn - left
    if forward == 1 or forward == -1:
        if ij // nx != ijn // nx:
            return -1
        if (not (ijr < 0 or ijr >= n)) and regions[ijr] == region:
            return 1
        if regions[ijn] == region:
            return 0
        return -1
    if ijn < 0 or ijn >= n:
        return -1
    if ijn // nx == ijr // nx and regions[ijr] == region:
        return 1
    if regions[ijn] == region:
        return 0
    return -1


def fw_next_ij(regions, region, ij, forward, left, nx, n):
    t = fw_turn(regions, region, ij, forward, left, nx, n)
    return ij + forward if t == 0 else (ij if t == -1 else ij + forward - left)


def fw_next_fw(regions, region, ij, forward, left, nx, n):
    t = fw_turn(regions, region, ij, forward, left, nx, n)
    return forward if t == 0 else (left if t == -1 else -left)


def fw_next_lf(regions, region, ij, forward, left, nx, n):
    t = fw_turn(regions, region, ij, forward, left, nx, n)
    return left if t == 0 else (-forward if t == -1 else forward)


# the step functions are only compared with each other in the trace argument: symbols with a definitional axiom
OPAQUE |= {"fw_next_ij", "fw_next_fw", "fw_next_lf"}
