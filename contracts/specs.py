"""Spec functions: written once in the Python subset pyvc translates to SMT,
and executed natively by CPython for counterexample replay and bounded
stand-ins.  No z3 import here - this file must load under /venv/bin/python.

Conventions: quantifiers are all(...)/any(...) over range(); `isnan`,
`isfinite` are scalar predicates; float comparisons follow IEEE (NaN compares
false), exactly like the XR model.
"""
from math import isnan, isfinite, isinf  # noqa: F401  (native meaning; pyvc has its own)


# ------------------------------------------------------------------ C18 trim / crop
def same(e, v):
    # the property: "NaN counts as excluded when listed" -> NaN matches NaN
    return e == v or (isnan(e) and isnan(v))


def kept(data, y, x, excludes, ne):
    return not any(same(excludes[k], data[y, x]) for k in range(ne))


def row_has_kept(data, y, cols, excludes, ne):
    return any(kept(data, y, x, excludes, ne) for x in range(cols))


def col_has_kept(data, x, rows, excludes, ne):
    return any(kept(data, y, x, excludes, ne) for y in range(rows))


def hit(data, y, x, values, nv):
    return any(values[k] == data[y, x] for k in range(nv))


def row_has_hit(data, y, cols, values, nv):
    return any(hit(data, y, x, values, nv) for x in range(cols))


def col_has_hit(data, x, rows, values, nv):
    return any(hit(data, y, x, values, nv) for y in range(rows))
