"""C16 - from the kernel's postconditions to 'labels are exactly the connected components'.

_area_connectivity ensures (proved on the real code, contracts/c16_regions.py):
  (CL) the result never separates two n-adjacent cells of equal value   [rg_closed_at at every non-NaN cell]
  (RF) two cells with the same label have the same comp-label, for *every* labelling comp with (CL).
Lemma path: a labelling with (CL) is constant along a path of n-adjacent equal cells - induction over the path, base and
step below (the induction principle itself is the stated meta-argument).  So connected => same label.  Conversely the
connected-component labelling cc has (CL) by definition of connectivity, so (RF) with comp := cc gives same label =>
same component.
"""
import z3
from pyvc.values import VInt
from pyvc.contract import Lemma


def path(S):
    A = S.array("RA", "f", 2)
    D = S.array("RD", "f", 2)
    py = S.array("Rpy", "i", 1)
    px = S.array("Rpx", "i", 1)
    n, rows, cols, i = z3.Ints("rn rrows rcols ri")
    env = {"A": A, "data": D, "py": py, "px": px, "n": VInt(n), "rows": VInt(rows), "cols": VInt(cols), "i": VInt(i)}
    E = lambda src: S.expr(src, env).t
    closed = E("all(isnan(data[p, q]) or rg_closed_at(A, data, p, q, n, rows, cols) for p in range(0, rows) for q in range(0, cols))")
    inb = lambda k: E("rg_inb(py[%s], px[%s], rows, cols)" % (k, k))
    step = E("rg_match(data, py[i], px[i], py[i + 1] - py[i], px[i + 1] - px[i], n, rows, cols)")
    hyp = [z3.Or(n == 4, n == 8), i >= 0, closed, inb("0"), inb("i"), E("not isnan(data[py[i], px[i]])"), step]
    return [("base", [inb("0")], E("A[py[0], px[0]] == A[py[0], px[0]] or isnan(A[py[0], px[0]])")),
            ("step", hyp + [E("A[py[i], px[i]] == A[py[0], px[0]]")], E("A[py[i + 1], px[i + 1]] == A[py[0], px[0]]"))]


Lemma("C16.path", path, props=("C16",),
      notes="a labelling that never separates n-adjacent equal cells is constant along every path of n-adjacent equal cells")
