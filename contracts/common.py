"""contract-building helpers shared by several source files"""
from pyvc.contract import LoopSpec


def stencil_loops(out, interior, y="y", x="x", first=0, r=1):
    """loop specs for the canonical 3x3 kernel:
        out[:] = nan
        for y in range(r, rows-r):
            for x in range(r, cols-r):
                out[y, x] = <interior>
    `interior(yy, xx)` gives the spec expression for out[yy, xx]."""
    return {
        first: LoopSpec("for", inv=[
            "all(isnan(%s[p, q]) for p in range(0, rows) for q in range(0, cols) "
            "if p < %d or p >= %s or q < %d or q >= cols - %d)" % (out, r, y, r, r),
            "all(close(%s[p, q], %s) for p in range(%d, %s) for q in range(%d, cols - %d))" % (out, interior("p", "q"), r, y, r, r),
        ]),
        first + 1: LoopSpec("for", inv=[
            "all(isnan(%s[p, q]) for p in range(0, rows) for q in range(0, cols) "
            "if p < %d or p > %s or q < %d or q >= cols - %d or (p == %s and q >= %s))" % (out, r, y, r, r, y, x),
            "all(close(%s[p, q], %s) for p in range(%d, %s) for q in range(%d, cols - %d))" % (out, interior("p", "q"), r, y, r, r),
            "all(close(%s[%s, q], %s) for q in range(%d, %s))" % (out, y, interior(y, "q"), r, x),
        ], cut=["close(%s[%s, %s], %s)" % (out, y, x, interior(y, x))]),
    }


def stencil_ensures(interior, r=1):
    return [
        "result.shape[0] == rows and result.shape[1] == cols",
        "all(isnan(result[p, q]) for p in range(0, rows) for q in range(0, cols) if p < %d or p >= rows - %d or q < %d or q >= cols - %d)" % (r, r, r, r),
        "all(close(result[p, q], %s) for p in range(%d, rows - %d) for q in range(%d, cols - %d))" % (interior("p", "q"), r, r, r, r),
    ]


def pointwise_loops(out, cell, first=0, y="y", x="x", untouched="isnan(%s[p, q])"):
    """loops of a per-cell kernel
        for y in range(rows): for x in range(cols): out[y, x] = f(cell values)   (cells may be skipped -> keep initial value)
    cell(p, q): spec expression for the final value at (p, q)."""
    u = lambda p, q: (untouched % out).replace("p, q", "%s, %s" % (p, q))
    return {
        first: LoopSpec("for", inv=[
            "all(close(%s[p, q], %s) for p in range(0, %s) for q in range(0, cols))" % (out, cell("p", "q"), y),
            "all(%s for p in range(%s, rows) for q in range(0, cols))" % (u("p", "q"), y),
        ]),
        first + 1: LoopSpec("for", inv=[
            "all(close(%s[p, q], %s) for p in range(0, %s) for q in range(0, cols))" % (out, cell("p", "q"), y),
            "all(close(%s[%s, q], %s) for q in range(0, %s))" % (out, y, cell(y, "q"), x),
            "all(%s for p in range(%s + 1, rows) for q in range(0, cols))" % (u("p", "q"), y),
            "all(%s for q in range(%s, cols))" % (u(y, "q"), x),
        ], cut=["close(%s[%s, %s], %s)" % (out, y, x, cell(y, x))]),
    }


def pointwise_ensures(cell):
    return [
        "result.shape[0] == rows and result.shape[1] == cols",
        "all(close(result[p, q], %s) for p in range(0, rows) for q in range(0, cols))" % cell("p", "q"),
    ]
