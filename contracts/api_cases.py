"""Catalogue of public API calls used by the bounded stand-ins of C01 / C10 / C11
(executed natively under /venv/bin/python).  Each entry builds a call from a
random generator, a dtype, a memory layout and a backend."""
import numpy as np
import xarray as xr

DTYPES = ["int8", "uint8", "int16", "uint16", "int32", "uint32", "int64", "uint64", "float32", "float64"]
LAYOUTS = ["C", "F", "view", "readonly"]


def make_array(rng, shape, dtype, layout, pool=None, nan=True):
    h, w = shape
    if pool is None:
        pool = list(range(0, 9))
    base = np.array([rng.choice(pool) for _ in range(h * w)], dtype="float64").reshape(h, w)
    if dtype.startswith("float"):
        base = base + np.array([rng.random() for _ in range(h * w)]).reshape(h, w) * rng.choice([0.0, 1.0])
        if nan and rng.random() < 0.6:
            for _ in range(rng.randint(1, 2)):
                base[rng.randrange(h), rng.randrange(w)] = np.nan
        if nan and rng.random() < 0.25:
            base[rng.randrange(h), rng.randrange(w)] = rng.choice([np.inf, -np.inf])
    a = base.astype(dtype)
    if layout == "F":
        a = np.asfortranarray(a)
    elif layout == "view":
        big = np.zeros((h * 2, w * 2), dtype=dtype)
        big[::2, ::2] = a
        a = big[::2, ::2]
    elif layout == "readonly":
        a = a.copy()
        a.flags.writeable = False
    return a


def make_raster(rng, shape, dtype="float64", layout="C", backend="numpy", chunks=None, pool=None, nan=True, res=None, name=None):
    a = make_array(rng, shape, dtype, layout, pool, nan)
    h, w = shape
    ys = np.linspace(10.0, 10.0 + (h - 1) * 2.0, h)[::-1].copy() if h > 1 else np.array([10.0])
    xs = np.linspace(-3.0, -3.0 + (w - 1) * 1.5, w) if w > 1 else np.array([-3.0])
    data = a
    if backend == "dask":
        import dask.array as da
        data = da.from_array(a, chunks=chunks or CHUNK_OVERRIDE or (max(1, h // 2), max(1, w // 2)))
    attrs = {"res": res if res is not None else (1.5, 2.0), "note": "keep-me", "nested": {"k": [1, 2]}}
    r = xr.DataArray(data, dims=["y", "x"], coords={"y": ys, "x": xs, "band": 7}, attrs=attrs, name=name)
    return r


def _k(shape=(3, 3)):
    k = np.ones(shape)
    return k


CASES = {}
CHUNK_OVERRIDE = None


def case(name, backends=("numpy", "dask"), dtypes=DTYPES, shape_preserving=True, min_shape=(3, 3), jit=False):
    def deco(fn):
        CASES[name] = dict(name=name, build=fn, backends=backends, dtypes=dtypes, shape_preserving=shape_preserving,
                           min_shape=min_shape, jit=jit)
        return fn
    return deco


def _r(rng, dtype, layout, backend, shape=None, **kw):
    shape = shape or (rng.randint(3, 6), rng.randint(3, 7))
    return make_raster(rng, shape, dtype, layout, backend, **kw)


@case("slope")
def _(rng, dtype, layout, backend):
    from xrspatial import slope
    r = _r(rng, dtype, layout, backend)
    return slope, (r,), {}, [r]


@case("aspect")
def _(rng, dtype, layout, backend):
    from xrspatial import aspect
    r = _r(rng, dtype, layout, backend)
    return aspect, (r,), {}, [r]


@case("curvature")
def _(rng, dtype, layout, backend):
    from xrspatial import curvature
    r = _r(rng, dtype, layout, backend)
    return curvature, (r,), {}, [r]


@case("hillshade")
def _(rng, dtype, layout, backend):
    from xrspatial import hillshade
    r = _r(rng, dtype, layout, backend)
    return hillshade, (r,), dict(azimuth=rng.choice([0, 45, 225, 315]), angle_altitude=rng.choice([10, 25, 60])), [r]


@case("binary", dtypes=["float32", "float64"])
def _(rng, dtype, layout, backend):
    from xrspatial.classify import binary
    r = _r(rng, dtype, layout, backend)
    return binary, (r, [1, 2, 3]), {}, [r]


@case("reclassify")
def _(rng, dtype, layout, backend):
    from xrspatial.classify import reclassify
    r = _r(rng, dtype, layout, backend)
    return reclassify, (r,), dict(bins=[1, 3, 5, 100], new_values=[10, 20, 30, 40]), [r]


@case("quantile", backends=("numpy",))
def _(rng, dtype, layout, backend):
    from xrspatial.classify import quantile
    r = _r(rng, dtype, layout, backend)
    return quantile, (r,), dict(k=rng.randint(2, 5)), [r]


@case("equal_interval")
def _(rng, dtype, layout, backend):
    from xrspatial.classify import equal_interval
    r = _r(rng, dtype, layout, backend)
    return equal_interval, (r,), dict(k=rng.randint(2, 5)), [r]


@case("natural_breaks", backends=("numpy",), jit=True)
def _(rng, dtype, layout, backend):
    from xrspatial.classify import natural_breaks
    r = _r(rng, dtype, layout, backend)
    return natural_breaks, (r,), dict(k=rng.randint(2, 4)), [r]


@case("convolution_2d")
def _(rng, dtype, layout, backend):
    from xrspatial.convolution import convolution_2d
    r = _r(rng, dtype, layout, backend, shape=(rng.randint(4, 8), rng.randint(4, 8)))
    k = rng.choice([np.array([[0., 1., 0.5], [1., 2., 0.], [0., 1., 1.]]), np.ones((1, 3)), np.ones((3, 1)), np.ones((5, 3)),
                    np.arange(15.).reshape(3, 5)])
    return convolution_2d, (r, k), {}, [r]


@case("focal_apply")
def _(rng, dtype, layout, backend):
    from xrspatial import focal
    r = _r(rng, dtype, layout, backend, shape=(rng.randint(3, 8), rng.randint(3, 8)))
    k = rng.choice([np.array([[0., 1., 0.], [1., 1., 0.], [0., 1., 1.]]), np.ones((3, 1)), np.ones((5, 5)), np.ones((1, 5)),
                    np.array([[1., 0., 0., 1., 1.]] * 3)])
    return focal.apply, (r, k), dict(func=rng.choice([focal._calc_mean, focal._calc_max, focal._calc_sum])), [r]


@case("focal_stats", shape_preserving=False)
def _(rng, dtype, layout, backend):
    from xrspatial import focal
    r = _r(rng, dtype, layout, backend)
    return focal.focal_stats, (r, np.ones((3, 3))), dict(stats_funcs=["mean", "max", "range"]), [r]


@case("hotspots")
def _(rng, dtype, layout, backend):
    from xrspatial import focal
    r = _r(rng, dtype, layout, backend, shape=(rng.randint(4, 6), rng.randint(4, 7)), nan=False)
    return focal.hotspots, (r, np.ones((3, 3))), {}, [r]


@case("focal_mean", backends=("numpy", "dask"), dtypes=["float32", "float64", "int32", "int64", "uint8"])
def _(rng, dtype, layout, backend):
    from xrspatial import focal
    r = _r(rng, dtype, layout, backend)
    return focal.mean, (r,), dict(passes=rng.randint(0, 2)), [r]


def _spectral(fname, nb, extra=None):
    @case(fname)
    def _(rng, dtype, layout, backend, fname=fname, nb=nb, extra=extra):
        from xrspatial import multispectral
        shape = (rng.randint(3, 5), rng.randint(3, 6))
        bands = [_r(rng, dtype, layout, backend, shape=shape, pool=[0, 1, 2, 3, 50, 200]) for _ in range(nb)]
        return getattr(multispectral, fname), tuple(bands), dict(extra or {}), bands


for _n, _b in [("arvi", 3), ("gci", 2), ("nbr", 2), ("nbr2", 2), ("ndvi", 2), ("ndmi", 2), ("sipi", 3), ("ebbi", 3)]:
    _spectral(_n, _b)
_spectral("evi", 3, dict(c1=6.0, c2=7.5, soil_factor=1.0, gain=2.5))
_spectral("savi", 2, dict(soil_factor=0.5))


@case("true_color", shape_preserving=False)
def _(rng, dtype, layout, backend):
    from xrspatial.multispectral import true_color
    shape = (rng.randint(3, 5), rng.randint(3, 6))
    bands = [_r(rng, dtype, layout, backend, shape=shape, pool=[0, 1, 2, 3, 50, 200]) for _ in range(3)]
    return true_color, tuple(bands), {}, bands


@case("perlin", dtypes=["float32", "float64"])
def _(rng, dtype, layout, backend):
    from xrspatial import perlin
    r = _r(rng, dtype, layout, backend, nan=False)
    return perlin, (r,), dict(seed=rng.randint(0, 5), freq=(rng.choice([1, 2]), 1)), [r]


@case("generate_terrain", dtypes=["float32", "float64"], shape_preserving=False)
def _(rng, dtype, layout, backend):
    from xrspatial import generate_terrain
    r = _r(rng, dtype, layout, backend, nan=False, shape=rng.choice([(4, 5), (4, 5), (3, 6)]))
    kw = dict(seed=rng.randint(0, 5))
    if rng.random() < 0.6:
        # a tile of a larger extent (the tiling use-case): same shape, different window
        x0, y0 = rng.choice([0, 250]), rng.choice([0, 250])
        kw.update(x_range=(x0, x0 + 250), y_range=(y0, y0 + 250), full_extent=(0, 0, 500, 500))
    return generate_terrain, (r,), kw, [r]


def _prox(fname):
    @case(fname, dtypes=["float64", "float32", "int32", "int64", "uint8"])
    def _(rng, dtype, layout, backend, fname=fname):
        import importlib
        P = importlib.import_module("xrspatial.proximity")
        r = _r(rng, dtype, layout, backend, pool=[0, 0, 0, 1, 2, 3], nan=False)
        kw = dict(distance_metric=rng.choice(["EUCLIDEAN", "MANHATTAN"]))
        if rng.random() < 0.5:
            kw["target_values"] = [2, 3]
        if rng.random() < 0.5:
            kw["max_distance"] = rng.choice([1.5, 2.0, 3.1])
        return getattr(P, fname), (r,), kw, [r]


for _n in ("proximity", "allocation", "direction"):
    _prox(_n)


@case("a_star_search", backends=("numpy",), dtypes=["float64", "float32", "int32"])
def _(rng, dtype, layout, backend):
    from xrspatial.pathfinding import a_star_search
    r = _r(rng, dtype, layout, backend, pool=[1, 1, 1, 2, 0], nan=False)
    ys, xs = r.y.values, r.x.values
    start = (ys[0], xs[0])
    goal = (ys[-1], xs[-1])
    return a_star_search, (r, start, goal), dict(barriers=[0], connectivity=rng.choice([4, 8])), [r]


@case("viewshed", backends=("numpy",), dtypes=["float64", "float32", "int32", "int64"])
def _(rng, dtype, layout, backend):
    from xrspatial import viewshed
    r = _r(rng, dtype, layout, backend, nan=False)
    return viewshed, (r,), dict(x=float(r.x.values[1]), y=float(r.y.values[1]), observer_elev=rng.choice([0, 1, 2.5])), [r]


@case("regions", backends=("numpy",), dtypes=["float64", "float32", "int32", "int64", "uint8"])
def _(rng, dtype, layout, backend):
    from xrspatial.zonal import regions
    r = _r(rng, dtype, layout, backend, pool=[0, 1, 1, 2])
    return regions, (r,), dict(neighborhood=rng.choice([4, 8])), [r]


@case("zonal_stats", shape_preserving=False, dtypes=["float64", "float32", "int32", "int64"])
def _(rng, dtype, layout, backend):
    from xrspatial.zonal import stats
    shape = (rng.randint(3, 5), rng.randint(3, 6))
    z = _r(rng, "int64" if rng.random() < 0.5 else "float64", "C", backend, shape=shape, pool=[0, 1, 2, 5], nan=False)
    v = _r(rng, dtype, layout, backend, shape=shape)
    return stats, (z, v), {}, [z, v]


@case("zonal_stats_raster", backends=("numpy",), shape_preserving=False, dtypes=["float64", "float32", "int32"])
def _(rng, dtype, layout, backend):
    from xrspatial.zonal import stats
    shape = (rng.randint(3, 5), rng.randint(3, 6))
    z = _r(rng, "float64", "C", backend, shape=shape, pool=[0, 1, 2, 5], nan=False)
    v = _r(rng, dtype, layout, backend, shape=shape)
    return stats, (z, v), dict(return_type="xarray.DataArray", stats_funcs=["mean", "max"]), [z, v]


@case("crosstab", shape_preserving=False, dtypes=["float64", "int32", "int64"])
def _(rng, dtype, layout, backend):
    from xrspatial.zonal import crosstab
    shape = (rng.randint(3, 5), rng.randint(3, 6))
    z = _r(rng, "int64", "C", backend, shape=shape, pool=[0, 1, 2, 5], nan=False)
    v = _r(rng, dtype, layout, backend, shape=shape, pool=[1, 2, 3], nan=False)
    return crosstab, (z, v), {}, [z, v]


@case("trim", backends=("numpy",), shape_preserving=False, dtypes=["float64", "float32"])
def _(rng, dtype, layout, backend):
    from xrspatial.zonal import trim
    r = _r(rng, dtype, layout, backend, pool=[0, 0, 1, 2])
    return trim, (r,), dict(values=(np.nan, 0.0)), [r]


@case("crop", backends=("numpy",), shape_preserving=False, dtypes=["float64", "float32", "int32"])
def _(rng, dtype, layout, backend):
    from xrspatial.zonal import crop
    shape = (rng.randint(3, 5), rng.randint(3, 6))
    z = _r(rng, "float64", "C", backend, shape=shape, pool=[0, 1, 2, 5], nan=False)
    v = _r(rng, dtype, layout, backend, shape=shape)
    return crop, (z, v), dict(zones_ids=(1.0, 2.0)), [z, v]


def _local(fname, ref=False):
    @case("local_" + fname, backends=("numpy",), shape_preserving=False, dtypes=["float64", "float32", "int32", "int64"])
    def _(rng, dtype, layout, backend, fname=fname, ref=ref):
        from xrspatial import local
        shape = (rng.randint(2, 4), rng.randint(2, 5))
        layers = {"a%d" % i: make_raster(rng, shape, dtype, layout, pool=[1, 2, 3, 4]) for i in range(rng.randint(2, 4))}
        if ref:
            layers["ref"] = make_raster(rng, shape, "int64", "C", pool=[1, 2], nan=False)
        ds = xr.Dataset(layers)
        kw = {"ref_var": "ref"} if ref else {}
        return getattr(local, fname), (ds,), kw, list(layers.values())


for _n in ("cell_stats", "combine", "lowest_position", "highest_position"):
    _local(_n)
for _n in ("lesser_frequency", "equal_frequency", "greater_frequency", "popularity", "rank"):
    _local(_n, ref=True)
