"""C10 / C11: declared frame conditions of the public API.

PUBLIC: raster-in / raster-out analysis functions and, per function, the only
parameters they may write (`modifies`) and may return a view of (`views`).
These exceptions are exactly the ones the property statement lists.
"""

PUBLIC = {
    "slope:slope": {}, "aspect:aspect": {}, "curvature:curvature": {}, "hillshade:hillshade": {},
    "classify:binary": {}, "classify:reclassify": {}, "classify:quantile": {}, "classify:equal_interval": {},
    "classify:natural_breaks": {},
    "convolution:convolution_2d": {}, "convolution:convolve_2d": {},
    "focal:apply": {}, "focal:focal_stats": {}, "focal:hotspots": {}, "focal:mean": {},
    "multispectral:arvi": {}, "multispectral:evi": {}, "multispectral:gci": {}, "multispectral:nbr": {},
    "multispectral:nbr2": {}, "multispectral:ndvi": {}, "multispectral:ndmi": {}, "multispectral:savi": {},
    "multispectral:sipi": {}, "multispectral:ebbi": {}, "multispectral:true_color": {},
    "perlin:perlin": {}, "terrain:generate_terrain": {},
    "proximity:proximity": {}, "proximity:allocation": {}, "proximity:direction": {},
    "pathfinding:a_star_search": {},
    "viewshed:viewshed": {},
    "zonal:regions": {}, "zonal:stats": {}, "zonal:crosstab": {},
    "zonal:apply": {"modifies": {"values"}},                 # documented: updates `values` in place by contract
    "zonal:trim": {"views": {"raster"}},                     # documented: returns a window (view) of its input
    "zonal:crop": {"views": {"values"}},
    "local:cell_stats": {}, "local:combine": {}, "local:lesser_frequency": {}, "local:equal_frequency": {},
    "local:greater_frequency": {}, "local:lowest_position": {}, "local:highest_position": {}, "local:popularity": {},
    "local:rank": {},
    "experimental/polygonize:polygonize": {},
    "analytics:summarize_terrain": {},
}

# value-preserving re-wrappings that the analysis recognises syntactically (X.data = X.data.rechunk(..),
# X.values = X.values.astype(..)) and where they are allowed
BENIGN_ALLOWED = {
    "utils:validate_arrays": "re-chunks the caller's Dask-backed DataArray so that inputs are chunked alike (values, coords, attrs unchanged)",
    "proximity:_process._process_dask": "re-chunks to one block when max_distance covers the raster (documented)",
    "zonal:crosstab": "re-chunks 3-D values to the zones' chunks (values unchanged)",
    "viewshed:_viewshed_cpu": "documented exception: viewshed may widen the input's dtype without changing a value",
    "viewshed:viewshed": "cupy -> numpy transfer of the same values (GPU path, outside the claim)",
}
