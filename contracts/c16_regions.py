"""C16 - the two-pass labelling kernel of regions() under contract.

Ghost parameter `comp` is *any* labelling of the cells that never separates two n-adjacent cells of equal value.  The
postconditions say (a) out never separates such cells either (so connected => same label, by induction along the path:
lemma C16.path) and (b) two cells with the same out-label have the same comp-label, for every such comp - in particular
for the connected-component labelling itself, which is the finest one.  Together: out's partition is exactly the
connected components.
"""
from pyvc.contract import Contract, LoopSpec

M = "xrspatial/zonal.py"

ALL = lambda body: "all(%s for p in range(0, rows) for q in range(0, cols))" % body
NANOK = "isnan(data[p, q]) == isnan(out[p, q])"
POS = "isnan(data[p, q]) or out[p, q] >= 1"

ALL4 = lambda body: "all(%s for p in range(0, rows) for q in range(0, cols) for r in range(0, rows) for s in range(0, cols))" % body
# soundness: cells sharing a (positive) label lie in one class of every admissible labelling comp
SOUND = ALL4("(not (out[p, q] >= 1 and out[p, q] == out[r, s])) or comp[p, q] == comp[r, s]")
# every cell carrying label L lies in the class of the current cell
CLS = lambda L: ALL("out[p, q] != %s or comp[p, q] == comp[y, x]" % L)
WIN = "all((not is_close[k]) or (area_window[k] >= 1 and all(out[p, q] != area_window[k] or comp[p, q] == comp[y, x] " \
      "for p in range(0, rows) for q in range(0, cols))) for k in range(0, n))"
AVM = "assigned_values_min is None or (assigned_values_min >= 1 and %s)" % CLS("assigned_values_min")

# completeness: (a) after the first pass every cell shares the label of an earlier equal neighbour if it has one;
# (b) a cell the second pass has handled agrees with all its earlier equal neighbours
WIT = lambda rng: "all(rg_wit(out, data, p, q, n, rows, cols) for %s)" % rng
BACK = lambda yy, xx: "all((not rg_before(p, q, %s, %s)) or isnan(data[p, q]) or rg_closed_back(out, data, p, q, n, rows, cols) " \
    "for p in range(0, rows) for q in range(0, cols))" % (yy, xx)
SLOT = lambda k: "out[rg_ny(n, %s, y, rows), rg_nx(n, %s, x, cols)]" % (k, k)
J3 = "(assigned_values_min is None) == (j == 0)"
J4 = "all(%s == assigned_values_min for i in range(0, j))" % SLOT("neighbor_matches[i]")
J5 = "all((not is_close[k]) or %s == area_window[k] or (assigned_values_min is not None and %s == assigned_values_min) " \
     "for k in range(0, n))" % (SLOT("k"), SLOT("k"))
# the relabelling loops: cells already visited are mapped (S -> T), the others are as they were when the loop over y1 started
MAPPED = lambda S, T, L: "same(out[p, q], (%s if at_entry(%d, out[p, q]) == %s else at_entry(%d, out[p, q])))" % (T, L, S, L)
KEPT = lambda L: "same(out[p, q], at_entry(%d, out[p, q]))" % L


def relabel(S, T, L):
    outer = ["all(%s for p in range(0, y1) for q in range(0, cols))" % MAPPED(S, T, L),
             "all(%s for p in range(y1, rows) for q in range(0, cols))" % KEPT(L)]
    inner = ["all(%s for p in range(0, y1) for q in range(0, cols))" % MAPPED(S, T, L),
             "all(%s for p in range(y1 + 1, rows) for q in range(0, cols))" % KEPT(L),
             "all(%s for p in range(y1, y1 + 1) for q in range(0, x1))" % MAPPED(S, T, L),
             "all(%s for p in range(y1, y1 + 1) for q in range(x1, cols))" % KEPT(L)]
    return outer, inner


R6, R7 = relabel("assigned_values_min", "area_val", 6)
R8, R9 = relabel("area_val", "assigned_values_min", 8)
HINT = " and ".join("((not (%d < n and is_close[%d])) or (0 <= wpos(neighbor_matches, %d) and wpos(neighbor_matches, %d) < neighbor_matches.shape[0] "
                    "and neighbor_matches[wpos(neighbor_matches, %d)] == %d))" % (k, k, k, k, k, k) for k in range(8))

_C = [ALL(NANOK), ALL(POS), SOUND]
_R = _C + [WIN, "assigned_values_min is not None", "assigned_values_min >= 1", CLS("assigned_values_min"), "area_val >= 1", CLS("area_val")]

Contract(
    M, "_area_connectivity", {"data": "f2", "n": "int"},
    lets=[("rows", "data.shape[0]"), ("cols", "data.shape[1]")],
    ghost_params={"comp": "i2"},
    requires=["n == 4 or n == 8",
              "comp.shape[0] == rows and comp.shape[1] == cols",
              # domain: values are NaN or finite, and isclose-matching (atol 1e-8, rtol 1e-5) is equality on them
              ALL("isnan(data[p, q]) or isfinite(data[p, q])"),
              ALL4("rg_separated(data[p, q], data[r, s])"),
              # comp: any labelling that does not separate n-adjacent cells of equal value
              ALL("rg_closed_at(comp, data, p, q, n, rows, cols)")],
    result="f2",
    ensures=[
        "result.shape[0] == rows and result.shape[1] == cols",
        "all(isnan(data[p, q]) == isnan(result[p, q]) for p in range(0, rows) for q in range(0, cols))",
        "all(isnan(data[p, q]) or result[p, q] >= 1 for p in range(0, rows) for q in range(0, cols))",
        ALL4("(not (result[p, q] >= 1 and result[p, q] == result[r, s])) or comp[p, q] == comp[r, s]"),
        ALL("isnan(data[p, q]) or rg_closed_at(result, data, p, q, n, rows, cols)"),
    ],
    loops={
        0: LoopSpec("for", index="y", inv=[
            "uid >= 1",
            "all(%s for p in range(0, y) for q in range(0, cols))" % NANOK,
            "all(isnan(data[p, q]) or (out[p, q] >= 1 and out[p, q] < uid) for p in range(0, y) for q in range(0, cols))",
            "all(out[p, q] == 0 for p in range(y, rows) for q in range(0, cols))",
            SOUND,
            WIT("p in range(0, y) for q in range(0, cols)"),
        ]),
        1: LoopSpec("for", index="x", inv=[
            "uid >= 1",
            "all(%s for p in range(0, y) for q in range(0, cols))" % NANOK,
            "all(isnan(data[p, q]) or (out[p, q] >= 1 and out[p, q] < uid) for p in range(0, y) for q in range(0, cols))",
            "all(out[p, q] == 0 for p in range(y + 1, rows) for q in range(0, cols))",
            "all(isnan(data[y, q]) == isnan(out[y, q]) for q in range(0, x))",
            "all(isnan(data[y, q]) or (out[y, q] >= 1 and out[y, q] < uid) for q in range(0, x))",
            "all(out[y, q] == 0 for q in range(x, cols))",
            SOUND,
            WIT("p in range(0, y) for q in range(0, cols)"),
            WIT("p in range(y, y + 1) for q in range(0, x)"),
        ], cut=["rg_wit(out, data, y, x, n, rows, cols)"]),
        2: LoopSpec("for", index="j", inv=[
            "assigned_value is None",
            "all(not (area_window[neighbor_matches[i]] > 0) for i in range(0, j))",
        ]),
        3: LoopSpec("for", index="y", inv=_C + [WIT("p in range(0, rows) for q in range(0, cols)"), BACK("y", "0")]),
        4: LoopSpec("for", index="x", inv=_C + [WIT("p in range(0, rows) for q in range(0, cols)"), BACK("y", "x")],
                    cut=["isnan(data[y, x]) or rg_closed_back(out, data, y, x, n, rows, cols)"]),
        5: LoopSpec("for", index="j", inv=_C + [WIN, AVM, WIT("p in range(0, rows) for q in range(0, cols)"), BACK("y", "x"), J3, J4, J5],
                    # what the rest of the cell's iteration needs: every equal neighbour in the window now carries one label
                    post=_C + [WIT("p in range(0, rows) for q in range(0, cols)"), BACK("y", "x"),
                               "assigned_values_min is not None or all(not is_close[k] for k in range(0, n))",
                               "assigned_values_min is None or (%s)" % " and ".join(
                                   "((not (%d < n and is_close[%d])) or %s == assigned_values_min)" % (k, k, SLOT(str(k))) for k in range(8))]),
        6: LoopSpec("for", index="y1", inv=_R + R6),
        7: LoopSpec("for", index="x1", inv=_R + R7),
        8: LoopSpec("for", index="y1", inv=_R + R8),
        9: LoopSpec("for", index="x1", inv=_R + R9),
    },
    ghost={"after_assign": {"neighbor_matches": ["assert " + HINT]}},
    props=("C16",),
    native={"skip": True},
)
