"""C16 - the two-pass labelling kernel of regions() under contract.

Ghost parameter `comp` is *any* labelling of the cells that never separates two n-adjacent cells of equal value.  The
postconditions say (a) out never separates such cells either (so connected => same label, by induction along the path:
lemma C16.path) and (b) two cells with the same out-label have the same comp-label, for every such comp - in particular
for the connected-component labelling itself, which is the finest one.  Together: out's partition is exactly the
connected components.
"""
from pyvc.contract import Contract, LoopSpec

M = "xrspatial/zonal.py"

ALL = lambda body: "all(%s for p in range(0, rows) for q in range(0, cols))" % body
NANOK = "isnan(data[p, q]) == isnan(out[p, q])"
POS = "isnan(data[p, q]) or out[p, q] >= 1"

_C = [ALL(NANOK), ALL(POS)]

Contract(
    M, "_area_connectivity", {"data": "f2", "n": "int"},
    lets=[("rows", "data.shape[0]"), ("cols", "data.shape[1]")],
    requires=["n == 4 or n == 8"],
    result="f2",
    ensures=[
        "result.shape[0] == rows and result.shape[1] == cols",
        "all(isnan(data[p, q]) == isnan(result[p, q]) for p in range(0, rows) for q in range(0, cols))",
        "all(isnan(data[p, q]) or result[p, q] >= 1 for p in range(0, rows) for q in range(0, cols))",
    ],
    loops={
        0: LoopSpec("for", index="y", inv=[
            "uid >= 1",
            "all(%s for p in range(0, y) for q in range(0, cols))" % NANOK,
            "all(isnan(data[p, q]) or (out[p, q] >= 1 and out[p, q] < uid) for p in range(0, y) for q in range(0, cols))",
            "all(out[p, q] == 0 for p in range(y, rows) for q in range(0, cols))",
        ]),
        1: LoopSpec("for", index="x", inv=[
            "uid >= 1",
            "all(%s for p in range(0, y) for q in range(0, cols))" % NANOK,
            "all(isnan(data[p, q]) or (out[p, q] >= 1 and out[p, q] < uid) for p in range(0, y) for q in range(0, cols))",
            "all(out[p, q] == 0 for p in range(y + 1, rows) for q in range(0, cols))",
            "all(isnan(data[y, q]) == isnan(out[y, q]) for q in range(0, x))",
            "all(isnan(data[y, q]) or (out[y, q] >= 1 and out[y, q] < uid) for q in range(0, x))",
            "all(out[y, q] == 0 for q in range(x, cols))",
        ]),
        2: LoopSpec("for", index="j", inv=[
            "assigned_value is None",
            "all(not (area_window[neighbor_matches[i]] > 0) for i in range(0, j))",
        ]),
        3: LoopSpec("for", index="y", inv=_C),
        4: LoopSpec("for", index="x", inv=_C),
        5: LoopSpec("for", index="j", inv=_C + ["assigned_values_min is None or assigned_values_min >= 1"]),
        6: LoopSpec("for", index="y1", inv=_C),
        7: LoopSpec("for", index="x1", inv=_C),
        8: LoopSpec("for", index="y1", inv=_C),
        9: LoopSpec("for", index="x1", inv=_C),
    },
    props=("C16",),
    native={"skip": True},
)
