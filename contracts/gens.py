"""input generators / function getters for native (bounded) runs - executed under /venv/bin/python"""
import numpy as np

POOL = [0.0, 1.0, 2.0, 3.0, -1.0, 0.5, float("nan"), float("inf"), float("-inf"), 7.0, -2.5, 100.0, 255.0, 0.25]


def _arr(rng, shape, pool=POOL, dtype="float64"):
    n = int(np.prod(shape))
    k = rng.randint(1, len(pool))
    sub = rng.sample(pool, k)
    return np.array([rng.choice(sub) for _ in range(n)], dtype=dtype).reshape(shape)


def gen_bands(rng, it, c):
    """same-shaped band rasters (float32, as the public wrappers pass them) + scalar parameters"""
    o = c.native["opts"]
    shape = (rng.randint(0, 4), rng.randint(0, 4))
    dt = rng.choice(["float32", "float64"])
    args = {b: _arr(rng, shape, dtype=dt) for b in o["bands"]}
    if rng.random() < 0.3 and len(o["bands"]) > 1:
        args[o["bands"][1]] = args[o["bands"][0]].copy()       # equal bands -> zero denominators
    for s in o["scalars"]:
        args[s] = rng.choice([0.0, 1.0, -1.0, 0.5, 2.5, 6.0, 7.5, -0.5])
    return args


def gen_bins(rng, it, c):
    """every position of a value relative to the bins: ascending bins with ties, values on / between / outside bounds"""
    nb = rng.randint(1, 6)
    bins = sorted(rng.choice([-3.0, -1.0, 0.0, 0.5, 1.0, 2.0, 2.0, 5.0, float("inf")]) for _ in range(nb))
    new_values = [float(rng.randint(0, 9)) for _ in range(nb + rng.randint(0, 2))]
    cand = sorted(set(bins)) + [b + 0.25 for b in bins if b != float("inf")] + [b - 0.25 for b in bins if b != float("inf")] + \
        [float("nan"), float("inf"), float("-inf"), -100.0, 100.0]
    shape = (rng.randint(0, 3), rng.randint(0, 4))
    n = shape[0] * shape[1]
    data = np.array([rng.choice(cand) for _ in range(n)], dtype=rng.choice(["float32", "float64"])).reshape(shape)
    return {"data": data, "bins": np.array(bins, dtype="float64"), "new_values": np.array(new_values, dtype="float64")}


def gen_conv(rng, it, c):
    kshape = (rng.choice([1, 3, 5]), rng.choice([1, 3, 5]))
    shape = (rng.randint(0, 7), rng.randint(0, 7))
    pool = [0.0, 1.0, 2.0, -1.0, 0.5, float("nan"), 3.0, float("inf")]
    return {"data": _arr(rng, shape, pool), "kernel": _arr(rng, kshape, [0.0, 1.0, 2.0, -1.0, 0.5])}


def gen_apply(rng, it, c):
    """random 0/1 kernels of odd, possibly non-square shape (asymmetric patterns) and a jitted nan-reducer"""
    from xrspatial import focal
    kshape = (rng.choice([1, 3, 5]), rng.choice([1, 3, 5]))
    shape = (rng.randint(0, 6), rng.randint(0, 6))
    pool = [0.0, 1.0, 2.0, -1.0, 0.5, float("nan"), 3.0, 7.0]
    kernel = np.array([rng.choice([0.0, 1.0]) for _ in range(kshape[0] * kshape[1])]).reshape(kshape)
    func = rng.choice([focal._calc_mean, focal._calc_sum, focal._calc_min, focal._calc_max, focal._calc_range, focal._calc_std])
    return {"data": _arr(rng, shape, pool, dtype="float32"), "kernel": kernel, "func": func}
