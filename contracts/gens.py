"""input generators / function getters for native (bounded) runs - executed under /venv/bin/python"""
import numpy as np

POOL = [0.0, 1.0, 2.0, 3.0, -1.0, 0.5, float("nan"), float("inf"), float("-inf"), 7.0, -2.5, 100.0, 255.0, 0.25]


def _arr(rng, shape, pool=POOL, dtype="float64"):
    n = int(np.prod(shape))
    k = rng.randint(1, len(pool))
    sub = rng.sample(pool, k)
    return np.array([rng.choice(sub) for _ in range(n)], dtype=dtype).reshape(shape)


def gen_bands(rng, it, c):
    """same-shaped band rasters (float32, as the public wrappers pass them) + scalar parameters"""
    o = c.native["opts"]
    shape = (rng.randint(0, 4), rng.randint(0, 4))
    dt = rng.choice(["float32", "float64"])
    args = {b: _arr(rng, shape, dtype=dt) for b in o["bands"]}
    if rng.random() < 0.3 and len(o["bands"]) > 1:
        args[o["bands"][1]] = args[o["bands"][0]].copy()       # equal bands -> zero denominators
    for s in o["scalars"]:
        args[s] = rng.choice([0.0, 1.0, -1.0, 0.5, 2.5, 6.0, 7.5, -0.5])
    return args


def gen_bins(rng, it, c):
    """every position of a value relative to the bins: ascending bins with ties, values on / between / outside bounds"""
    nb = rng.randint(1, 6)
    bins = sorted(rng.choice([-3.0, -1.0, 0.0, 0.5, 1.0, 2.0, 2.0, 5.0, float("inf")]) for _ in range(nb))
    new_values = [float(rng.randint(0, 9)) for _ in range(nb + rng.randint(0, 2))]
    cand = sorted(set(bins)) + [b + 0.25 for b in bins if b != float("inf")] + [b - 0.25 for b in bins if b != float("inf")] + \
        [float("nan"), float("inf"), float("-inf"), -100.0, 100.0]
    shape = (rng.randint(0, 3), rng.randint(0, 4))
    n = shape[0] * shape[1]
    data = np.array([rng.choice(cand) for _ in range(n)], dtype=rng.choice(["float32", "float64"])).reshape(shape)
    return {"data": data, "bins": np.array(bins, dtype="float64"), "new_values": np.array(new_values, dtype="float64")}


def gen_conv(rng, it, c):
    kshape = (rng.choice([1, 3, 5]), rng.choice([1, 3, 5]))
    shape = (rng.randint(0, 7), rng.randint(0, 7))
    pool = [0.0, 1.0, 2.0, -1.0, 0.5, float("nan"), 3.0, float("inf")]
    return {"data": _arr(rng, shape, pool), "kernel": _arr(rng, kshape, [0.0, 1.0, 2.0, -1.0, 0.5])}


def gen_apply(rng, it, c):
    """random 0/1 kernels of odd, possibly non-square shape (asymmetric patterns) and a jitted nan-reducer"""
    from xrspatial import focal
    kshape = (rng.choice([1, 3, 5]), rng.choice([1, 3, 5]))
    shape = (rng.randint(0, 6), rng.randint(0, 6))
    pool = [0.0, 1.0, 2.0, -1.0, 0.5, float("nan"), 3.0, 7.0]
    kernel = np.array([rng.choice([0.0, 1.0]) for _ in range(kshape[0] * kshape[1])]).reshape(kshape)
    func = rng.choice([focal._calc_mean, focal._calc_sum, focal._calc_min, focal._calc_max, focal._calc_range, focal._calc_std])
    return {"data": _arr(rng, shape, pool, dtype="float32"), "kernel": kernel, "func": func}


def gen_strides(rng, it, c):
    """sorted zone vector whose elements all occur in the strictly ascending unique vector (some ids may be absent)"""
    ids = sorted(rng.sample([-3.0, -1.5, 0.0, 0.5, 1.0, 2.0, 5.0, 7.0, 10.0], rng.randint(0, 6)))
    flat = sorted(rng.choice(ids) for _ in range(rng.randint(0, 9))) if ids else []
    return {"flatten_zones": np.array(flat, dtype="float64"), "unique_zones": np.array(ids, dtype="float64")}


def gen_calc_stats(rng, it, c):
    ids = sorted(rng.sample([-3.0, 0.0, 0.5, 1.0, 2.0, 5.0, 7.0], rng.randint(0, 5)))
    n = rng.randint(0, 10)
    breaks = sorted(rng.randint(0, n) for _ in ids)
    vals = [rng.choice([0.0, 1.0, 2.0, 3.5, float("nan"), float("inf"), -1.0, 6.0]) for _ in range(n)]
    zi = rng.sample(ids + [99.0], rng.randint(0, len(ids) + 1))
    func = rng.choice([np.sum, np.max, np.mean, len, np.std])
    wrapped = lambda a, f=func: float(f(a))
    return {"values_by_zones": np.array(vals, dtype="float64"), "zone_breaks": np.array(breaks, dtype="int64"),
            "unique_zones": np.array(ids, dtype="float64"), "zone_ids": np.array(zi, dtype="float64"), "func": wrapped,
            "nodata_values": rng.choice([float("nan"), 0.0, 1.0])}


def gen_xtab2d(rng, it, c):
    cats = sorted(rng.sample([0.0, 1.0, 2.0, 3.5, 6.0, -1.0], rng.randint(1, 5)))
    zv = [rng.choice(cats + [float("nan"), float("inf")]) for _ in range(rng.randint(0, 8))]
    sel = rng.sample(cats, rng.randint(0, len(cats)))
    d = {"_total_count": []}
    for cat in sel:
        d[cat] = []
    return {"zone_values": np.array(zv, dtype="float64"), "unique_cats": np.array(cats, dtype="float64"),
            "cat_ids": np.array(sel, dtype="float64"), "nodata_values": rng.choice([float("nan"), 77.0]), "crosstab_dict": d}


def gen_transform_points(rng, it, c):
    n = rng.randint(0, 5)
    pts = np.array([[rng.choice([0.0, 1.0, 2.0, 3.0, 5.0]), rng.choice([0.0, 1.0, 4.0])] for _ in range(n)], dtype="float64").reshape(n, 2)
    tr = np.array([rng.choice([1.0, 2.0, 0.0, -1.5]) for _ in range(6)], dtype="float64")
    return {"pts": pts, "transform": tr}
