"""C06 - proximity building blocks: distance dispatch, compass bearing, and the line sweep with ghost witnesses."""
from pyvc.contract import Contract, LoopSpec

P = "xrspatial/proximity.py"
OUT = "x1 > 180 or x1 < -180 or x2 > 180 or x2 < -180 or y1 > 90 or y1 < -90 or y2 > 90 or y2 < -90"

Contract(P, "_distance", {"x1": "float", "x2": "float", "y1": "float", "y2": "float", "metric": "int"},
         result="float",
         raises={"ValueError": "metric == 1 and (%s)" % OUT},
         ensures=["same(result, spec_dist(x1, x2, y1, y2, metric))"],
         props=("C06",), axioms=("sqrt", "pi"),
         native={"opts": {"int_lo": 0, "int_hi": 2, "pool": [0.0, 1.0, 2.5, -3.0, 45.0, 90.0, -90.0, 180.0, 181.0, float("nan")]}})

Contract(P, "_calc_direction", {"x1": "float", "x2": "float", "y1": "float", "y2": "float"},
         result="float",
         ensures=["close(result, spec_direction(x1, x2, y1, y2))"],
         props=("C06",), axioms=("pi",))

# ---------------------------------------------------------------------------------------------------------------------
# _process_proximity_line: one sweep over one image line.  Ghost state: the whole image `img` and, per pixel, the witness
# target (wit_x, wit_y) of the current line_proximity value.
T = lambda v: "is_tgt(%s, values, nv)" % v
D = lambda r, c, p: "spec_dist(xs[%s, %s], xs[line_id, %s], ys[%s, %s], ys[line_id, %s], distance_metric)" % (r, c, p, r, c, p)
CAND = lambda p: ("(pan_near_x[%(p)s] == -1 or (0 <= pan_near_x[%(p)s] and pan_near_x[%(p)s] < W and 0 <= pan_near_y[%(p)s] and "
                  "pan_near_y[%(p)s] < H and " + T("img[pan_near_y[%(p)s], pan_near_x[%(p)s]]") + "))") % {"p": p}
PROX = lambda p: ("(line_proximity[%(p)s] < 0 or (0 <= wit_x[%(p)s] and wit_x[%(p)s] < W and 0 <= wit_y[%(p)s] and wit_y[%(p)s] < H and "
                  + T("img[wit_y[%(p)s], wit_x[%(p)s]]") + " and same(line_proximity[%(p)s], " + D("wit_y[%(p)s]", "wit_x[%(p)s]", "%(p)s")
                  + ") and line_proximity[%(p)s] <= max_distance))") % {"p": p}
# what holds for a pixel after it has been processed, clause by clause
PROX_A = lambda p: ("(line_proximity[%(p)s] < 0 or (0 <= wit_x[%(p)s] and wit_x[%(p)s] < W and 0 <= wit_y[%(p)s] and wit_y[%(p)s] < H and "
                    + T("img[wit_y[%(p)s], wit_x[%(p)s]]") + "))") % {"p": p}
PROX_B = lambda p: ("(line_proximity[%(p)s] < 0 or same(line_proximity[%(p)s], " + D("wit_y[%(p)s]", "wit_x[%(p)s]", "%(p)s") + "))") % {"p": p}
PROX_C = lambda p: "(line_proximity[%(p)s] < 0 or line_proximity[%(p)s] <= max_distance)" % {"p": p}
DONE_PARTS = [
    lambda p: CAND(p),
    PROX_A, PROX_B, PROX_C,
    lambda p: ("((not " + T("source_line[%(p)s]") + ") or (line_proximity[%(p)s] == 0 and nearest_xs[%(p)s] == %(p)s and "
               "nearest_ys[%(p)s] == line_id and wit_x[%(p)s] == %(p)s and wit_y[%(p)s] == line_id and pan_near_x[%(p)s] == %(p)s "
               "and pan_near_y[%(p)s] == line_id))") % {"p": p},
    lambda p: ("(nearest_xs[%(p)s] == -1 or (nearest_xs[%(p)s] == wit_x[%(p)s] and nearest_ys[%(p)s] == wit_y[%(p)s] and "
               "line_proximity[%(p)s] >= 0))") % {"p": p},
    lambda p: ("((not old(line_proximity[%(p)s]) >= 0) or (0 <= line_proximity[%(p)s] and "
               "line_proximity[%(p)s] <= old(line_proximity[%(p)s])))") % {"p": p},
    lambda p: ("(nearest_xs[%(p)s] != -1 or (same(line_proximity[%(p)s], old(line_proximity[%(p)s])) and wit_x[%(p)s] == old(wit_x[%(p)s]) "
               "and wit_y[%(p)s] == old(wit_y[%(p)s])))") % {"p": p},
]
DONE = lambda p: "(" + " and ".join(f(p) for f in DONE_PARTS) + ")"
UNTOUCHED = lambda p: ("(same(line_proximity[%(p)s], old(line_proximity[%(p)s])) and nearest_xs[%(p)s] == -1 and nearest_ys[%(p)s] == -1 and "
                       "wit_x[%(p)s] == old(wit_x[%(p)s]) and wit_y[%(p)s] == old(wit_y[%(p)s]) and pan_near_x[%(p)s] == old(pan_near_x[%(p)s]) "
                       "and pan_near_y[%(p)s] == old(pan_near_y[%(p)s]))") % {"p": p}
VISITED = "(p - start) * step < (pixel - start) * step"

Contract(
    P, "_process_proximity_line",
    {"source_line": "f1", "xs": "f2", "ys": "f2", "pan_near_x": "i1", "pan_near_y": "i1", "is_forward": "bool", "line_id": "int",
     "width": "int", "max_distance": "float", "line_proximity": "f1", "nearest_xs": "i1", "nearest_ys": "i1", "values": "f1",
     "distance_metric": "int"},
    ghost_params={"img": "f2", "wit_x": "i1", "wit_y": "i1"},
    ghost={"after_assign": {"nearest_ys": ["wit_x[pixel] = nearest_xs[pixel]\nwit_y[pixel] = nearest_ys[pixel]"]}},
    lets=[("H", "img.shape[0]"), ("W", "img.shape[1]"), ("nv", "values.shape[0]")],
    requires=[
        "xs.shape[0] == H and xs.shape[1] == W and ys.shape[0] == H and ys.shape[1] == W and width == W",
        "0 <= line_id and line_id < H",
        "source_line.shape[0] == W and pan_near_x.shape[0] == W and pan_near_y.shape[0] == W and line_proximity.shape[0] == W",
        "nearest_xs.shape[0] == W and nearest_ys.shape[0] == W and wit_x.shape[0] == W and wit_y.shape[0] == W",
        "distance_metric == 0 or distance_metric == 2",           # planar metrics; GREAT_CIRCLE is covered by the bounded stand-in
        "not isnan(max_distance) and max_distance >= 0",
        "all(isfinite(xs[r, c]) and isfinite(ys[r, c]) for r in range(0, H) for c in range(0, W))",
        "all(same(source_line[p], img[line_id, p]) for p in range(0, W))",
        "all(%s and %s and nearest_xs[p] == -1 and nearest_ys[p] == -1 for p in range(0, W))" % (CAND("p"), PROX("p")),
    ],
    modifies=("pan_near_x", "pan_near_y", "line_proximity", "nearest_xs", "nearest_ys", "wit_x", "wit_y"),
    ensures=["all(%s for p in range(0, W))" % f("p") for f in DONE_PARTS],
    loops={
        0: LoopSpec("for", inv=[
            "pan_near_x.shape[0] == W and pan_near_y.shape[0] == W and line_proximity.shape[0] == W and nearest_xs.shape[0] == W "
            "and nearest_ys.shape[0] == W and wit_x.shape[0] == W and wit_y.shape[0] == W",
            "all(%s for p in range(0, W))" % CAND("p"),
        ] + ["all(%s for p in range(0, W) if %s)" % (f("p"), VISITED) for f in DONE_PARTS] + [
            "all(%s for p in range(0, W) if not (%s))" % (UNTOUCHED("p"), VISITED),
        ], cut=[
            # proof hints (proved first, from sqrt(d*d) = d for d >= 0): they put sqrt(L*L) terms in scope so that the
            # monotonicity of sqrt applies to "near_distance_square < L*L" / "max_distance*max_distance >= near_distance_square"
            "not (old(line_proximity[pixel]) >= 0) or same(sqrt(old(line_proximity[pixel]) * old(line_proximity[pixel])), old(line_proximity[pixel]))",
            "same(sqrt(max_distance * max_distance), max_distance)",
        ] + [f("pixel") for f in DONE_PARTS]),
        1: LoopSpec("for", inv=[
            "is_target == any(source_line[pixel] == values[q] for q in range(0, i))",
        ]),
    },
    props=("C06",),
    axioms=("sqrt", "sqrt_sq", "sqrt_mono"),
    native={"skip": True},
    notes="ghost parameters img / wit_x / wit_y; GREAT_CIRCLE excluded here (bounded)",
)
