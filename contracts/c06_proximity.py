"""C06 - proximity building blocks: distance dispatch, compass bearing, and the line sweep with ghost witnesses."""
from pyvc.contract import Contract, LoopSpec

P = "xrspatial/proximity.py"
OUT = "x1 > 180 or x1 < -180 or x2 > 180 or x2 < -180 or y1 > 90 or y1 < -90 or y2 > 90 or y2 < -90"

Contract(P, "_distance", {"x1": "float", "x2": "float", "y1": "float", "y2": "float", "metric": "int"},
         result="float",
         raises={"ValueError": "metric == 1 and (%s)" % OUT},
         ensures=["same(result, spec_dist(x1, x2, y1, y2, metric))"],
         props=("C06",), axioms=("sqrt", "pi"),
         native={"opts": {"int_lo": 0, "int_hi": 2, "pool": [0.0, 1.0, 2.5, -3.0, 45.0, 90.0, -90.0, 180.0, 181.0, float("nan")]}})

Contract(P, "_calc_direction", {"x1": "float", "x2": "float", "y1": "float", "y2": "float"},
         result="float",
         ensures=["close(result, spec_direction(x1, x2, y1, y2))"],
         props=("C06",), axioms=("pi",))

# ---------------------------------------------------------------------------------------------------------------------
# _process_proximity_line: one sweep over one image line.  Ghost state: the whole image `img` and, per pixel, the witness
# target (wit_x, wit_y) of the current line_proximity value.
T = lambda v: "is_tgt(%s, values, nv)" % v
D = lambda r, c, p: "spec_dist(xs[%s, %s], xs[line_id, %s], ys[%s, %s], ys[line_id, %s], distance_metric)" % (r, c, p, r, c, p)
CAND = lambda p: ("(pan_near_x[%(p)s] == -1 or (0 <= pan_near_x[%(p)s] and pan_near_x[%(p)s] < W and 0 <= pan_near_y[%(p)s] and "
                  "pan_near_y[%(p)s] < H and " + T("img[pan_near_y[%(p)s], pan_near_x[%(p)s]]") + "))") % {"p": p}
PROX = lambda p: ("(line_proximity[%(p)s] < 0 or (0 <= wit_x[%(p)s] and wit_x[%(p)s] < W and 0 <= wit_y[%(p)s] and wit_y[%(p)s] < H and "
                  + T("img[wit_y[%(p)s], wit_x[%(p)s]]") + " and same(line_proximity[%(p)s], " + D("wit_y[%(p)s]", "wit_x[%(p)s]", "%(p)s")
                  + ") and line_proximity[%(p)s] <= max_distance))") % {"p": p}
# what holds for a pixel after it has been processed, clause by clause
PROX_A = lambda p: ("(line_proximity[%(p)s] < 0 or (0 <= wit_x[%(p)s] and wit_x[%(p)s] < W and 0 <= wit_y[%(p)s] and wit_y[%(p)s] < H and "
                    + T("img[wit_y[%(p)s], wit_x[%(p)s]]") + "))") % {"p": p}
PROX_B = lambda p: ("(line_proximity[%(p)s] < 0 or same(line_proximity[%(p)s], " + D("wit_y[%(p)s]", "wit_x[%(p)s]", "%(p)s") + "))") % {"p": p}
PROX_C = lambda p: "(line_proximity[%(p)s] < 0 or line_proximity[%(p)s] <= max_distance)" % {"p": p}
DONE_PARTS = [
    lambda p: CAND(p),
    PROX_A, PROX_B, PROX_C,
    lambda p: ("((not " + T("source_line[%(p)s]") + ") or (line_proximity[%(p)s] == 0 and nearest_xs[%(p)s] == %(p)s and "
               "nearest_ys[%(p)s] == line_id and wit_x[%(p)s] == %(p)s and wit_y[%(p)s] == line_id and pan_near_x[%(p)s] == %(p)s "
               "and pan_near_y[%(p)s] == line_id))") % {"p": p},
    lambda p: ("(nearest_xs[%(p)s] == -1 or (nearest_xs[%(p)s] == wit_x[%(p)s] and nearest_ys[%(p)s] == wit_y[%(p)s] and "
               "line_proximity[%(p)s] >= 0))") % {"p": p},
    lambda p: ("((not old(line_proximity[%(p)s]) >= 0) or (0 <= line_proximity[%(p)s] and "
               "line_proximity[%(p)s] <= old(line_proximity[%(p)s])))") % {"p": p},
    lambda p: ("(nearest_xs[%(p)s] != -1 or (same(line_proximity[%(p)s], old(line_proximity[%(p)s])) and wit_x[%(p)s] == old(wit_x[%(p)s]) "
               "and wit_y[%(p)s] == old(wit_y[%(p)s])))") % {"p": p},
]
DONE = lambda p: "(" + " and ".join(f(p) for f in DONE_PARTS) + ")"
UNTOUCHED = lambda p: ("(same(line_proximity[%(p)s], old(line_proximity[%(p)s])) and nearest_xs[%(p)s] == -1 and nearest_ys[%(p)s] == -1 and "
                       "wit_x[%(p)s] == old(wit_x[%(p)s]) and wit_y[%(p)s] == old(wit_y[%(p)s]) and pan_near_x[%(p)s] == old(pan_near_x[%(p)s]) "
                       "and pan_near_y[%(p)s] == old(pan_near_y[%(p)s]))") % {"p": p}
VISITED = "(p - start) * step < (pixel - start) * step"

Contract(
    P, "_process_proximity_line",
    {"source_line": "f1", "xs": "f2", "ys": "f2", "pan_near_x": "i1", "pan_near_y": "i1", "is_forward": "bool", "line_id": "int",
     "width": "int", "max_distance": "float", "line_proximity": "f1", "nearest_xs": "i1", "nearest_ys": "i1", "values": "f1",
     "distance_metric": "int"},
    ghost_params={"img": "f2", "wit_x": "i1", "wit_y": "i1"},
    ghost={"after_assign": {"nearest_ys": ["wit_x[pixel] = nearest_xs[pixel]\nwit_y[pixel] = nearest_ys[pixel]"]}},
    lets=[("H", "img.shape[0]"), ("W", "img.shape[1]"), ("nv", "values.shape[0]")],
    requires=[
        "xs.shape[0] == H and xs.shape[1] == W and ys.shape[0] == H and ys.shape[1] == W and width == W",
        "0 <= line_id and line_id < H",
        "source_line.shape[0] == W and pan_near_x.shape[0] == W and pan_near_y.shape[0] == W and line_proximity.shape[0] == W",
        "nearest_xs.shape[0] == W and nearest_ys.shape[0] == W and wit_x.shape[0] == W and wit_y.shape[0] == W",
        "distance_metric == 0 or distance_metric == 2",           # planar metrics; GREAT_CIRCLE is covered by the bounded stand-in
        "not isnan(max_distance) and max_distance >= 0",
        "all(isfinite(xs[r, c]) and isfinite(ys[r, c]) for r in range(0, H) for c in range(0, W))",
        "all(same(source_line[p], img[line_id, p]) for p in range(0, W))",
        "all(%s and %s and nearest_xs[p] == -1 and nearest_ys[p] == -1 for p in range(0, W))" % (CAND("p"), PROX("p")),
    ],
    modifies=("pan_near_x", "pan_near_y", "line_proximity", "nearest_xs", "nearest_ys", "wit_x", "wit_y"),
    ensures=["all(%s for p in range(0, W))" % f("p") for f in DONE_PARTS],
    loops={
        0: LoopSpec("for", inv=[
            "pan_near_x.shape[0] == W and pan_near_y.shape[0] == W and line_proximity.shape[0] == W and nearest_xs.shape[0] == W "
            "and nearest_ys.shape[0] == W and wit_x.shape[0] == W and wit_y.shape[0] == W",
            "all(%s for p in range(0, W))" % CAND("p"),
        ] + ["all(%s for p in range(0, W) if %s)" % (f("p"), VISITED) for f in DONE_PARTS] + [
            "all(%s for p in range(0, W) if not (%s))" % (UNTOUCHED("p"), VISITED),
        ], cut=[
            # proof hints (proved first, from sqrt(d*d) = d for d >= 0): they put sqrt(L*L) terms in scope so that the
            # monotonicity of sqrt applies to "near_distance_square < L*L" / "max_distance*max_distance >= near_distance_square"
            "not (old(line_proximity[pixel]) >= 0) or same(sqrt(old(line_proximity[pixel]) * old(line_proximity[pixel])), old(line_proximity[pixel]))",
            "same(sqrt(max_distance * max_distance), max_distance)",
        ] + [f("pixel") for f in DONE_PARTS]),
        1: LoopSpec("for", inv=[
            "is_target == any(source_line[pixel] == values[q] for q in range(0, i))",
        ]),
    },
    props=("C06",),
    axioms=("sqrt", "sqrt_sq", "sqrt_mono"),
    native={"skip": True},
    notes="ghost parameters img / wit_x / wit_y; GREAT_CIRCLE excluded here (bounded)",
)


# ---------------------------------------------------------------------------------------------------------------------
# _process._process_numpy: the four-sweep glue (nested jitted closure; closure variables: max_distance, target_values,
# distance_metric, process_mode).  Ghost state: per cell the witness target (WX, WY) of the stored distance and the final
# distance GD; per line the callee's witnesses wit_x / wit_y, which are saved to / restored from WX, WY together with the
# distances.  What is proved: every non-NaN distance is the distance to an actual target cell within max_distance, target
# cells have distance 0, and the allocation / direction output of a cell is computed from that same witness (NaN where the
# distance is NaN).  Not proved here: that the witness is the *nearest* target (bounded, known approximation).
G = "xrspatial/proximity.py"
_TV = lambda v: "is_tgt(%s, target_values, nv)" % v
_DD = lambda r, c: ("spec_dist(x_coords[WY[%(r)s, %(c)s], WX[%(r)s, %(c)s]], x_coords[%(r)s, %(c)s], y_coords[WY[%(r)s, %(c)s], WX[%(r)s, %(c)s]], "
                    "y_coords[%(r)s, %(c)s], distance_metric)") % {"r": r, "c": c}
# witness facts of the stored distance d of cell (r, c)
_WIT = lambda r, c, d: ("(0 <= WX[%(r)s, %(c)s] and WX[%(r)s, %(c)s] < width and 0 <= WY[%(r)s, %(c)s] and WY[%(r)s, %(c)s] < height and %(t)s "
                        "and same(%(d)s, %(dd)s) and %(d)s <= max_distance)") % {
    "r": r, "c": c, "d": d, "t": _TV("img[WY[%s, %s], WX[%s, %s]]" % (r, c, r, c)), "dd": _DD(r, c)}
_CELLF = lambda r, c: "(isnan(img_distance[%(r)s, %(c)s]) or img_distance[%(r)s, %(c)s] < 0 or %(w)s)" % {
    "r": r, "c": c, "w": _WIT(r, c, "img_distance[%s, %s]" % (r, c))}
# the output of a cell with distance d and witness (wx, wy)
_OUT = lambda r, c, d, wx, wy: (
    "((not (%(d)s >= 0)) or ((process_mode != 1 or same(output_img[%(r)s, %(c)s], img[%(wy)s, %(wx)s])) and (process_mode != 2 or "
    "same(output_img[%(r)s, %(c)s], spec_direction(x_coords[%(r)s, %(c)s], x_coords[%(wy)s, %(wx)s], y_coords[%(r)s, %(c)s], y_coords[%(wy)s, %(wx)s]))))) "
    "and ((%(d)s >= 0) or isnan(output_img[%(r)s, %(c)s]))") % {"r": r, "c": c, "d": d, "wx": wx, "wy": wy}
_OUTF = lambda r, c: _OUT(r, c, "img_distance[%s, %s]" % (r, c), "WX[%s, %s]" % (r, c), "WY[%s, %s]" % (r, c))
_TGT0 = lambda r, c: "((not %s) or img_distance[%s, %s] == 0)" % (_TV("img[%s, %s]" % (r, c)), r, c)
_ROW = lambda r: "all(%s and %s and %s for c in range(0, width))" % (_CELLF(r, "c"), _OUTF(r, "c"), _TGT0(r, "c"))
_ROWS = lambda cond: "all(%s and %s and %s for r in range(0, height) for c in range(0, width) if %s)" % (
    _CELLF("r", "c"), _OUTF("r", "c"), _TGT0("r", "c"), cond)
_SH = ("output_img.shape[0] == height and output_img.shape[1] == width and img_distance.shape[0] == height and img_distance.shape[1] == width and "
       "pan_near_x.shape[0] == width and pan_near_y.shape[0] == width and scan_line.shape[0] == width and nearest_xs.shape[0] == width and "
       "nearest_ys.shape[0] == width and wit_x.shape[0] == width and wit_y.shape[0] == width")
_SHL = _SH + " and line_proximity.shape[0] == width"
_CANDG = lambda p: ("(pan_near_x[%(p)s] == -1 or (0 <= pan_near_x[%(p)s] and pan_near_x[%(p)s] < width and 0 <= pan_near_y[%(p)s] and "
                    "pan_near_y[%(p)s] < height and " + _TV("img[pan_near_y[%(p)s], pan_near_x[%(p)s]]") + "))") % {"p": p}
_CANDALL = "all(%s for p in range(0, width))" % _CANDG("p")
# the callee's per-pixel facts, in the caller's names (line_id = line)
_LD = lambda p: ("spec_dist(x_coords[wit_y[%(p)s], wit_x[%(p)s]], x_coords[line, %(p)s], y_coords[wit_y[%(p)s], wit_x[%(p)s]], y_coords[line, %(p)s], "
                 "distance_metric)") % {"p": p}
_LWIT = lambda p: ("(line_proximity[%(p)s] < 0 or (0 <= wit_x[%(p)s] and wit_x[%(p)s] < width and 0 <= wit_y[%(p)s] and wit_y[%(p)s] < height and "
                   + _TV("img[wit_y[%(p)s], wit_x[%(p)s]]") + " and same(line_proximity[%(p)s], " + _LD("%(p)s") + ") and "
                   "line_proximity[%(p)s] <= max_distance))") % {"p": p}
_LOUT = lambda p: _OUT("line", p, "line_proximity[%s]" % p, "wit_x[%s]" % p, "wit_y[%s]" % p)
_LTGT = lambda p: "((not %s) or line_proximity[%s] == 0)" % (_TV("img[line, %s]" % p), p)
_NONAN = lambda p: "(not isnan(line_proximity[%s]))" % p
_SCAN = "all(same(scan_line[p], img[line, p]) for p in range(0, width))"
_NEAR_OK = lambda p: ("(nearest_xs[%(p)s] == -1 or (nearest_xs[%(p)s] == wit_x[%(p)s] and nearest_ys[%(p)s] == wit_y[%(p)s] and "
                      "line_proximity[%(p)s] >= 0))") % {"p": p}
# after a sweep: every pixel has its witness facts; a pixel the sweep did not improve still has the output it had
_AFTER = ("all(%s and %s and %s and %s and (nearest_xs[p] != -1 or %s) for p in range(0, width))"
          % (_LWIT("p"), _NONAN("p"), _NEAR_OK("p"), _LTGT("p"), _LOUT("p")))
_AFTER_PART = lambda lo: ("all(%s and %s and %s and %s and (nearest_xs[p] != -1 or %s) for p in range(%s, width))"
                          % (_LWIT("p"), _NONAN("p"), _NEAR_OK("p"), _LTGT("p"), _LOUT("p"), lo))
_LINE_OK = lambda hi: "all(%s and %s and %s and %s for p in range(0, %s))" % (_LWIT("p"), _NONAN("p"), _LOUT("p"), _LTGT("p"), hi)
_RESET = lambda hi: "all(nearest_xs[p] == -1 and nearest_ys[p] == -1 for p in range(0, %s))" % hi
_OTHER_ROWS = _ROWS("r != line")


def _upd(extra=()):      # an output-update loop: pixels below i are final for this sweep, the others as the sweep left them
    return LoopSpec("for", index="i", inv=[_SHL, _CANDALL, _SCAN, _LINE_OK("i"), _AFTER_PART("i")] + list(extra))


Contract(
    G, "_process._process_numpy", {"img": "f2", "x_coords": "f2", "y_coords": "f2"},
    closure={"max_distance": "float", "target_values": "f1", "distance_metric": "int", "process_mode": "int"},
    ghost_params={"WX": "i2", "WY": "i2", "GD": "f2", "wit_x": "i1", "wit_y": "i1"},
    lets=[("H0", "img.shape[0]"), ("W0", "img.shape[1]"), ("nv", "target_values.shape[0]")],
    requires=[
        "H0 >= 1 and W0 >= 1 and x_coords.shape[0] == H0 and x_coords.shape[1] == W0 and y_coords.shape[0] == H0 and y_coords.shape[1] == W0",
        "wit_x.shape[0] == W0 and wit_y.shape[0] == W0",
        "distance_metric == 0 or distance_metric == 2",
        "process_mode == 0 or process_mode == 1 or process_mode == 2",
        "not isnan(max_distance) and max_distance >= 0",
        "all(isfinite(x_coords[r, c]) and isfinite(y_coords[r, c]) for r in range(0, H0) for c in range(0, W0))",
    ],
    modifies=("WX", "WY", "GD", "wit_x", "wit_y"),
    result="f2",
    ensures=[
        "result.shape[0] == H0 and result.shape[1] == W0",
        # the final distance of every cell: NaN, or the distance to an actual target cell (the witness) within max_distance
        ("all(isnan(GD[r, c]) or (GD[r, c] >= 0 and %s) for r in range(0, H0) for c in range(0, W0))" % _WIT("r", "c", "GD[r, c]"))
        .replace("width", "W0").replace("height", "H0"),
        ("all((not %s) or GD[r, c] == 0 for r in range(0, H0) for c in range(0, W0))" % _TV("img[r, c]")),
        "process_mode != 0 or all(same(result[r, c], GD[r, c]) for r in range(0, H0) for c in range(0, W0))",
        # allocation / direction are computed from the same witness, and are NaN exactly where the distance is
        "process_mode != 1 or all((isnan(GD[r, c]) and isnan(result[r, c])) or ((not isnan(GD[r, c])) and same(result[r, c], img[WY[r, c], WX[r, c]])) "
        "for r in range(0, H0) for c in range(0, W0))",
        "process_mode != 2 or all((isnan(GD[r, c]) and isnan(result[r, c])) or ((not isnan(GD[r, c])) and same(result[r, c], "
        "spec_direction(x_coords[r, c], x_coords[WY[r, c], WX[r, c]], y_coords[r, c], y_coords[WY[r, c], WX[r, c]]))) "
        "for r in range(0, H0) for c in range(0, W0))",
    ],
    loops={
        0: LoopSpec("for", index="i", inv=["pan_near_x.shape[0] == width and pan_near_y.shape[0] == width",
                                           "all(pan_near_x[p] == -1 and pan_near_y[p] == -1 for p in range(0, i))"]),
        # ---- top-down pass
        1: LoopSpec("for", index="line", inv=[
            _SH, "line == 0 or line_proximity.shape[0] == width", _CANDALL,
            _ROWS("r < line"),
            "all(not isnan(img_distance[r, c]) for r in range(0, line) for c in range(0, width))",
            "all(isnan(output_img[r, c]) for r in range(line, height) for c in range(0, width))",
        ]),
        2: LoopSpec("for", index="i", inv=["scan_line.shape[0] == width", "all(same(scan_line[p], img[line, p]) for p in range(0, i))"]),
        3: LoopSpec("for", index="i", inv=[_SHL, "all(line_proximity[p] == -1 and nearest_xs[p] == -1 and nearest_ys[p] == -1 for p in range(0, i))"]),
        4: _upd([_ROWS("r < line"), "all(isnan(output_img[r, c]) for r in range(line + 1, height) for c in range(0, width))",
                 "all(not isnan(img_distance[r, c]) for r in range(0, line) for c in range(0, width))"]),
        5: LoopSpec("for", index="i", inv=[_SHL, _RESET("i")]),
        6: LoopSpec("for", index="i", inv=[
            _SHL, _CANDALL, _LINE_OK("i"), _AFTER_PART("i"), _ROWS("r < line"),
            "all(not isnan(img_distance[r, c]) for r in range(0, line) for c in range(0, width))",
            "all(isnan(output_img[r, c]) for r in range(line + 1, height) for c in range(0, width))",
            "all(same(img_distance[line, p], line_proximity[p]) and WX[line, p] == wit_x[p] and WY[line, p] == wit_y[p] for p in range(0, i))",
        ]),
        7: LoopSpec("for", index="i", inv=["pan_near_x.shape[0] == width and pan_near_y.shape[0] == width",
                                           "all(pan_near_x[p] == -1 and pan_near_y[p] == -1 for p in range(0, i))"]),
        # ---- bottom-up pass
        8: LoopSpec("for", index="line", inv=[
            _SHL, _CANDALL, _ROWS("True"),
            "all(not isnan(img_distance[r, c]) for r in range(0, line + 1) for c in range(0, width))",
            "all(same(GD[r, c], img_distance[r, c]) and (isnan(img_distance[r, c]) or img_distance[r, c] >= 0) "
            "for r in range(line + 1, height) for c in range(0, width))",
        ]),
        9: LoopSpec("for", index="i", inv=[_SHL, "all(same(line_proximity[p], img_distance[line, p]) and wit_x[p] == WX[line, p] and "
                                                  "wit_y[p] == WY[line, p] for p in range(0, i))"]),
        10: LoopSpec("for", index="i", inv=["scan_line.shape[0] == width", "all(same(scan_line[p], img[line, p]) for p in range(0, i))"]),
        11: LoopSpec("for", index="i", inv=[_SHL, _RESET("i")]),
        12: _upd([_OTHER_ROWS]),
        13: LoopSpec("for", index="i", inv=[_SHL, _RESET("i")]),
        14: LoopSpec("for", index="i", inv=[
            _SHL, _CANDALL, _OTHER_ROWS, _AFTER_PART("i"),
            "all((isnan(line_proximity[p]) and isnan(output_img[line, p])) or (line_proximity[p] >= 0 and %s and %s) for p in range(0, i))"
            % (_LWIT("p"), _LOUT("p")),
            "all(%s for p in range(0, width))" % _LTGT("p"),
        ]),
        15: LoopSpec("for", index="i", inv=[
            _SHL, _CANDALL, _OTHER_ROWS,
            "all((isnan(line_proximity[p]) and isnan(output_img[line, p])) or (line_proximity[p] >= 0 and %s and %s) for p in range(0, width))"
            % (_LWIT("p"), _LOUT("p")),
            "all(%s for p in range(0, width))" % _LTGT("p"),
            "all(same(img_distance[line, p], line_proximity[p]) and same(GD[line, p], line_proximity[p]) and WX[line, p] == wit_x[p] and "
            "WY[line, p] == wit_y[p] for p in range(0, i))",
            "all(not isnan(img_distance[r, c]) for r in range(0, line) for c in range(0, width))",
            "all(same(GD[r, c], img_distance[r, c]) and (isnan(img_distance[r, c]) or img_distance[r, c] >= 0) "
            "for r in range(line + 1, height) for c in range(0, width))",
        ]),
    },
    ghost={"after_assign": {
        "img_distance<-line_proximity[i]": ["WX[line, i] = wit_x[i]\nWY[line, i] = wit_y[i]\nGD[line, i] = line_proximity[i]"],
        "line_proximity<-img_distance[line][i]": ["wit_x[i] = WX[line, i]\nwit_y[i] = WY[line, i]"],
    }},
    options={"ghost_spec_mode": True},
    props=("C06",), axioms=("sqrt", "pi"),
    native={"skip": True},
    notes="planar metrics; soundness of the glue (witness bookkeeping), not nearest-ness",
)
