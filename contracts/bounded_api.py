"""Public-API bounded stand-ins (executed natively under /venv/bin/python).

Each stand-in generates inputs (random with the given seed, or an exhaustive
enumeration of a small space), calls the real public function of /repo and
compares with an executable oracle written from the property statement.  They
are labelled *bounded* in the evidence and never counted as proved.
"""
import itertools
import json
import math
import random
import time

import numpy as np

STANDINS = {}


def enc(v):
    if isinstance(v, np.ndarray):
        return {"shape": list(v.shape), "dtype": str(v.dtype), "data": [enc(x) for x in v.ravel().tolist()]}
    if isinstance(v, float):
        if math.isnan(v):
            return "nan"
        if math.isinf(v):
            return "inf" if v > 0 else "-inf"
        return v
    if isinstance(v, (np.floating,)):
        return enc(float(v))
    if isinstance(v, (np.integer,)):
        return int(v)
    if isinstance(v, (list, tuple)):
        return [enc(x) for x in v]
    if isinstance(v, dict):
        return {k: enc(x) for k, x in v.items()}
    return v


def dec_arr(d):
    m = {"nan": float("nan"), "inf": float("inf"), "-inf": float("-inf")}
    return np.array([m.get(x, x) if isinstance(x, str) else x for x in d["data"]], dtype=d["dtype"]).reshape(d["shape"])


class StandIn:
    """cases(rng, tier) yields case dicts (JSON-able); check(case) returns None or a failure description"""

    def __init__(self, name, cases, check, bound, nontrivial=None):
        self.name = name
        self.cases = cases
        self.check = check
        self.bound = bound
        self.nontrivial = nontrivial or (lambda c: True)
        STANDINS[name] = self

    def run(self, seed, budget, tier):
        rng = random.Random(seed)
        t0 = time.time()
        n = 0
        seen = set()
        samples = []
        exhausted = True
        for case in self.cases(rng, tier):
            if time.time() - t0 > budget:
                exhausted = False
                break
            n += 1
            key = json.dumps(enc(case), sort_keys=True, default=str)
            if self.nontrivial(case) and key not in seen:
                seen.add(key)
                if len(samples) < 2:
                    samples.append(json.loads(key))
            try:
                fail = self.check(case)
            except Exception as e:          # the oracle itself must not crash
                import traceback
                fail = "exception: %r\n%s" % (e, traceback.format_exc()[-1500:])
            if fail:
                return {"status": "fail", "failure": str(fail)[:3000], "case": json.loads(key), "evaluations": n,
                        "distinct": len(seen), "samples": samples, "bound": self.bound}
        return {"status": "ok", "evaluations": n, "distinct": len(seen), "samples": samples, "bound": self.bound,
                "exhaustive": exhausted and getattr(self.cases, "exhaustive", False)}

    def replay(self, case):
        fail = self.check(case)
        return {"status": "fail" if fail else "ok", "failure": fail}


# --------------------------------------------------------------------------- helpers
def rand_raster(rng, shape, pool, dtype="float64"):
    n = shape[0] * shape[1]
    return np.array([rng.choice(pool) for _ in range(n)], dtype=dtype).reshape(shape)


def da_of(a, name=None, **kw):
    import xarray as xr
    return xr.DataArray(a, dims=["y", "x"], name=name, **kw)


def same(a, b, tol=0.0):
    a = np.asarray(a, dtype="float64")
    b = np.asarray(b, dtype="float64")
    if a.shape != b.shape:
        return False
    na, nb = np.isnan(a), np.isnan(b)
    if not np.array_equal(na, nb):
        return False
    with np.errstate(all="ignore"):
        d = np.abs(a[~na] - b[~nb])
        ok = (a[~na] == b[~nb]) | (d <= tol * (1 + np.abs(b[~nb])))
    return bool(np.all(ok))


# =========================================================================== C12 classifiers
def _c12_cases(rng, tier, ops=("binary", "reclassify", "quantile", "equal_interval"), jitter=(0, 1, 1e-7)):
    pools = [
        [0.0, 1.0, 2.0, 3.0, 4.0, 5.0, 6.0, 7.0, 8.0, 9.0],
        [0.1, 0.2, 0.7, 0.70000001, 1.5, 2.25, -3.5, 10.0, 16777217.0, 1e-3],
        [1.0, 1.0, 1.0, 2.0, 5.0, 5.0, -1.0],
    ]
    n = 0
    while True:
        n += 1
        pool = list(rng.choice(pools))
        shape = (rng.randint(1, 5), rng.randint(1, 6))
        a = rand_raster(rng, shape, pool)
        if rng.random() < 0.5:
            a = a + np.array([rng.random() for _ in range(a.size)]).reshape(shape) * rng.choice(jitter)
        for _ in range(rng.randint(0, 3)):
            a[rng.randrange(shape[0]), rng.randrange(shape[1])] = rng.choice([np.nan, np.inf, -np.inf])
        dtype = rng.choice(["float64", "float64", "float32"])
        a = a.astype(dtype)
        op = rng.choice(ops)
        case = {"op": op, "data": enc(a)}
        if op == "binary":
            case["values"] = [rng.choice(pool + [np.nan]) for _ in range(rng.randint(0, 3))]
        elif op == "reclassify":
            nb = rng.randint(1, 6)
            case["bins"] = sorted(rng.choice(pool + [np.inf]) for _ in range(nb))
            case["new_values"] = [rng.randint(0, 9) for _ in range(nb)]
        elif op == "quantile":
            case["k"] = rng.randint(2, 40)
        elif op == "equal_interval":
            case["k"] = rng.randint(2, 12)
        else:
            case["k"] = rng.randint(2, 4)
            case["data"] = enc(a.ravel()[:9].reshape(1, -1))
        yield case


def _first_bin(v, bins):
    v = float(v)        # exact value of the cell (avoid NumPy weak-scalar promotion to float32)
    for i, b in enumerate(bins):
        if float(b) >= v:
            return i
    return None


def _c12_check(case):
    import xarray as xr
    from xrspatial import classify
    a = dec_arr(case["data"])
    agg = xr.DataArray(a.copy())
    fin = np.isfinite(a)
    op = case["op"]
    if op == "binary":
        vals = [float(v) if not isinstance(v, str) else float(v) for v in case["values"]]
        out = classify.binary(agg, vals).values
        for idx, v in np.ndenumerate(a):
            exp = 1.0 if any(float(v) == w for w in vals) else (0.0 if np.isfinite(v) else np.nan)
            if not same(out[idx], exp):
                return "binary%s: value %r -> %r, expected %r" % (idx, v, out[idx], exp)
        return None
    if op == "reclassify":
        bins = [float(b) for b in case["bins"]]
        nv = case["new_values"]
        out = classify.reclassify(agg, bins, nv).values
        for idx, v in np.ndenumerate(a):
            k = _first_bin(v, bins) if np.isfinite(v) else None
            exp = float(nv[k]) if k is not None else np.nan
            if not same(out[idx], exp):
                return "reclassify%s: value %r bins %r -> %r, expected %r" % (idx, v, bins, out[idx], exp)
        return None
    k = case["k"]
    if fin.sum() == 0:
        return None
    vals = a[fin].astype("float64")
    if op == "equal_interval" and vals.min() == vals.max():
        return None          # degenerate domain (constant raster), DESIGN C12
    import warnings
    with warnings.catch_warnings():
        warnings.simplefilter("ignore")
        import io, contextlib
        with contextlib.redirect_stdout(io.StringIO()):
            out = getattr(classify, op)(agg, k=k).values
    # every NaN/inf cell NaN, every finite cell classified with an integer in [0, k-1]
    for idx, v in np.ndenumerate(a):
        o = out[idx]
        if not np.isfinite(v):
            if not np.isnan(o):
                return "%s k=%d%s: non-finite cell %r got class %r" % (op, k, idx, v, o)
        else:
            if np.isnan(o):
                return "%s k=%d%s: finite cell %r is left unclassified (NaN)" % (op, k, idx, v)
            if o != int(o) or o < 0 or o > k - 1:
                return "%s k=%d%s: cell %r got class %r outside [0, k-1]" % (op, k, idx, v, o)
    # order preserving
    fv, fo = a[fin].astype("float64"), out[fin]
    order = np.argsort(fv, kind="stable")
    so = fo[order]
    if np.any(np.diff(so) < 0):
        j = int(np.argmax(np.diff(so) < 0))
        return "%s k=%d: not order-preserving: %r -> class %r but %r -> class %r" % (
            op, k, fv[order][j], so[j], fv[order][j + 1], so[j + 1])
    if op == "equal_interval":
        lo, hi = vals.min(), vals.max()
        w = (hi - lo) / k
        for v, o in zip(fv, fo):
            t = (v - lo) / w
            if abs(t - round(t)) < 1e-6:
                continue      # on a class boundary up to rounding
            exp = min(max(int(math.ceil(t)) - 1, 0), k - 1)
            if o != exp:
                return "equal_interval k=%d: value %r in [%r, %r] got class %r, expected %r" % (k, v, lo, hi, o, exp)
    if op == "quantile":
        q = np.unique(np.percentile(vals, [100.0 * j / k for j in range(1, k + 1)]))
        for v, o in zip(fv, fo):
            exp = _first_bin(v, q)
            near = np.min(np.abs(q - v)) if len(q) else 1
            if 0 < near < 1e-9 * (1 + abs(v)):
                continue
            if exp is None or o != exp:
                return "quantile k=%d: value %r got class %r, expected percentile band %r (cuts %r)" % (k, v, o, exp, q.tolist())
    if op == "natural_breaks":
        uv = np.unique(vals)
        if len(uv) >= k and len(vals) <= 9:
            def ssd(groups):
                return sum(float(np.sum((g - g.mean()) ** 2)) for g in groups if len(g))
            got = ssd([fv[fo == c] for c in range(k)])
            sv = np.sort(vals)
            best = min(ssd([sv[i:j] for i, j in zip((0,) + cuts, cuts + (len(sv),))])
                       for cuts in itertools.combinations(range(1, len(sv)), k - 1))
            if got > best + 1e-9 * (1 + best):
                return "natural_breaks k=%d on %r: within-class SSD %r, optimum %r" % (k, sv.tolist(), got, best)
    return None


StandIn("c12_classifiers", _c12_cases, _c12_check,
        bound="random rasters up to 5x6 (float32/float64, ties, NaN/inf, values not representable in float32), k<=40 (quantile), "
              "k<=12 (equal_interval); NUMBA_DISABLE_JIT=1")
StandIn("c12_natural_breaks", lambda rng, tier: _c12_cases(rng, tier, ops=("natural_breaks",), jitter=(0, 1)), _c12_check,
        bound="natural_breaks vs brute-force optimal partition, n<=9 values (incl. 0.7/0.70000001/16777217 not representable in float32), "
              "k<=4; compiled (JIT on: the interpreted DP rounds differently)")
StandIn("c12_natural_breaks_near_duplicates", lambda rng, tier: _c12_cases(rng, tier, ops=("natural_breaks",), jitter=(1e-7,)), _c12_check,
        bound="as c12_natural_breaks, every value perturbed by < 1e-7 so that distinct values differ by ~1e-8 relative")
