"""Public-API bounded stand-ins (executed natively under /venv/bin/python).

Each stand-in generates inputs (random with the given seed, or an exhaustive
enumeration of a small space), calls the real public function of /repo and
compares with an executable oracle written from the property statement.  They
are labelled *bounded* in the evidence and never counted as proved.
"""
import itertools
import json
import math
import random
import time

import numpy as np

STANDINS = {}


def enc(v):
    if isinstance(v, np.ndarray):
        return {"shape": list(v.shape), "dtype": str(v.dtype), "data": [enc(x) for x in v.ravel().tolist()]}
    if isinstance(v, float):
        if math.isnan(v):
            return "nan"
        if math.isinf(v):
            return "inf" if v > 0 else "-inf"
        return v
    if isinstance(v, (np.floating,)):
        return enc(float(v))
    if isinstance(v, (np.integer,)):
        return int(v)
    if isinstance(v, (list, tuple)):
        return [enc(x) for x in v]
    if isinstance(v, dict):
        return {k: enc(x) for k, x in v.items()}
    return v


def dec_arr(d):
    m = {"nan": float("nan"), "inf": float("inf"), "-inf": float("-inf")}
    return np.array([m.get(x, x) if isinstance(x, str) else x for x in d["data"]], dtype=d["dtype"]).reshape(d["shape"])


class StandIn:
    """cases(rng, tier) yields case dicts (JSON-able); check(case) returns None or a failure description"""

    def __init__(self, name, cases, check, bound, nontrivial=None):
        self.name = name
        self.cases = cases
        self.check = check
        self.bound = bound
        self.nontrivial = nontrivial or (lambda c: True)
        STANDINS[name] = self

    def run(self, seed, budget, tier):
        rng = random.Random(seed)
        t0 = time.time()
        n = 0
        seen = set()
        samples = []
        exhausted = True
        for case in self.cases(rng, tier):
            if time.time() - t0 > budget:
                exhausted = False
                break
            n += 1
            key = json.dumps(enc(case), sort_keys=True, default=str)
            if self.nontrivial(case) and key not in seen:
                seen.add(key)
                if len(samples) < 2:
                    samples.append(json.loads(key))
            try:
                fail = self.check(case)
            except Exception as e:          # the oracle / harness itself crashed: a checker error, never a verdict
                import traceback
                return {"status": "error", "error": "stand-in %s crashed on case %s\n%s" % (self.name, key[:600], traceback.format_exc()[-2500:])}
            if fail:
                return {"status": "fail", "failure": str(fail)[:3000], "case": json.loads(key), "evaluations": n,
                        "distinct": len(seen), "samples": samples, "bound": self.bound}
        return {"status": "ok", "evaluations": n, "distinct": len(seen), "samples": samples, "bound": self.bound,
                "exhaustive": exhausted and getattr(self.cases, "exhaustive", False)}

    def replay(self, case):
        fail = self.check(case)
        return {"status": "fail" if fail else "ok", "failure": fail}


# --------------------------------------------------------------------------- helpers
def rand_raster(rng, shape, pool, dtype="float64"):
    n = shape[0] * shape[1]
    return np.array([rng.choice(pool) for _ in range(n)], dtype=dtype).reshape(shape)


def da_of(a, name=None, **kw):
    import xarray as xr
    return xr.DataArray(a, dims=["y", "x"], name=name, **kw)


def same(a, b, tol=0.0):
    a = np.asarray(a, dtype="float64")
    b = np.asarray(b, dtype="float64")
    if a.shape != b.shape:
        return False
    na, nb = np.isnan(a), np.isnan(b)
    if not np.array_equal(na, nb):
        return False
    with np.errstate(all="ignore"):
        d = np.abs(a[~na] - b[~nb])
        ok = (a[~na] == b[~nb]) | (d <= tol * (1 + np.abs(b[~nb])))
    return bool(np.all(ok))


# =========================================================================== C12 classifiers
def _c12_cases(rng, tier, ops=("binary", "reclassify", "quantile", "equal_interval"), jitter=(0, 1, 1e-7)):
    pools = [
        [0.0, 1.0, 2.0, 3.0, 4.0, 5.0, 6.0, 7.0, 8.0, 9.0],
        [0.1, 0.2, 0.7, 0.70000001, 1.5, 2.25, -3.5, 10.0, 16777217.0, 1e-3],
        [1.0, 1.0, 1.0, 2.0, 5.0, 5.0, -1.0],
    ]
    n = 0
    while True:
        n += 1
        pool = list(rng.choice(pools))
        shape = (rng.randint(1, 5), rng.randint(1, 6))
        a = rand_raster(rng, shape, pool)
        if rng.random() < 0.5:
            a = a + np.array([rng.random() for _ in range(a.size)]).reshape(shape) * rng.choice(jitter)
        for _ in range(rng.randint(0, 3)):
            a[rng.randrange(shape[0]), rng.randrange(shape[1])] = rng.choice([np.nan, np.inf, -np.inf])
        dtype = rng.choice(["float64", "float64", "float32"])
        a = a.astype(dtype)
        op = rng.choice(ops)
        case = {"op": op, "data": enc(a)}
        if op == "binary":
            case["values"] = [rng.choice(pool + [np.nan]) for _ in range(rng.randint(0, 3))]
        elif op == "reclassify":
            nb = rng.randint(1, 6)
            case["bins"] = sorted(rng.choice(pool + [np.inf]) for _ in range(nb))
            case["new_values"] = [rng.randint(0, 9) for _ in range(nb)]
        elif op == "quantile":
            case["k"] = rng.randint(2, 40)
        elif op == "equal_interval":
            case["k"] = rng.randint(2, 12)
        else:
            case["k"] = rng.randint(2, 4)
            case["data"] = enc(a.ravel()[:9].reshape(1, -1))
        yield case


def _first_bin(v, bins):
    v = float(v)        # exact value of the cell (avoid NumPy weak-scalar promotion to float32)
    for i, b in enumerate(bins):
        if float(b) >= v:
            return i
    return None


def _c12_check(case):
    import xarray as xr
    from xrspatial import classify
    a = dec_arr(case["data"])
    agg = xr.DataArray(a.copy())
    fin = np.isfinite(a)
    op = case["op"]
    if op == "binary":
        vals = [float(v) if not isinstance(v, str) else float(v) for v in case["values"]]
        out = classify.binary(agg, vals).values
        for idx, v in np.ndenumerate(a):
            exp = 1.0 if any(float(v) == w for w in vals) else (0.0 if np.isfinite(v) else np.nan)
            if not same(out[idx], exp):
                return "binary%s: value %r -> %r, expected %r" % (idx, v, out[idx], exp)
        return None
    if op == "reclassify":
        bins = [float(b) for b in case["bins"]]
        nv = case["new_values"]
        out = classify.reclassify(agg, bins, nv).values
        for idx, v in np.ndenumerate(a):
            k = _first_bin(v, bins) if np.isfinite(v) else None
            exp = float(nv[k]) if k is not None else np.nan
            if not same(out[idx], exp):
                return "reclassify%s: value %r bins %r -> %r, expected %r" % (idx, v, bins, out[idx], exp)
        return None
    k = case["k"]
    if fin.sum() == 0:
        return None
    vals = a[fin].astype("float64")
    if op == "equal_interval" and vals.min() == vals.max():
        return None          # degenerate domain (constant raster), DESIGN C12
    import warnings
    with warnings.catch_warnings():
        warnings.simplefilter("ignore")
        import io, contextlib
        with contextlib.redirect_stdout(io.StringIO()):
            out = getattr(classify, op)(agg, k=k).values
    # every NaN/inf cell NaN, every finite cell classified with an integer in [0, k-1]
    for idx, v in np.ndenumerate(a):
        o = out[idx]
        if not np.isfinite(v):
            if not np.isnan(o):
                return "%s k=%d%s: non-finite cell %r got class %r" % (op, k, idx, v, o)
        else:
            if np.isnan(o):
                return "%s k=%d%s: finite cell %r is left unclassified (NaN)" % (op, k, idx, v)
            if o != int(o) or o < 0 or o > k - 1:
                return "%s k=%d%s: cell %r got class %r outside [0, k-1]" % (op, k, idx, v, o)
    # order preserving
    fv, fo = a[fin].astype("float64"), out[fin]
    order = np.argsort(fv, kind="stable")
    so = fo[order]
    if np.any(np.diff(so) < 0):
        j = int(np.argmax(np.diff(so) < 0))
        return "%s k=%d: not order-preserving: %r -> class %r but %r -> class %r" % (
            op, k, fv[order][j], so[j], fv[order][j + 1], so[j + 1])
    if op == "equal_interval":
        lo, hi = vals.min(), vals.max()
        w = (hi - lo) / k
        for v, o in zip(fv, fo):
            t = (v - lo) / w
            if abs(t - round(t)) < 1e-6:
                continue      # on a class boundary up to rounding
            exp = min(max(int(math.ceil(t)) - 1, 0), k - 1)
            if o != exp:
                return "equal_interval k=%d: value %r in [%r, %r] got class %r, expected %r" % (k, v, lo, hi, o, exp)
    if op == "quantile":
        q = np.unique(np.percentile(vals, [100.0 * j / k for j in range(1, k + 1)]))
        for v, o in zip(fv, fo):
            exp = _first_bin(v, q)
            near = np.min(np.abs(q - v)) if len(q) else 1
            if 0 < near < 1e-9 * (1 + abs(v)):
                continue
            if exp is None or o != exp:
                return "quantile k=%d: value %r got class %r, expected percentile band %r (cuts %r)" % (k, v, o, exp, q.tolist())
    if op == "natural_breaks":
        uv = np.unique(vals)
        if len(uv) >= k and len(vals) <= 9:
            def ssd(groups):
                return sum(float(np.sum((g - g.mean()) ** 2)) for g in groups if len(g))
            got = ssd([fv[fo == c] for c in range(k)])
            sv = np.sort(vals)
            best = min(ssd([sv[i:j] for i, j in zip((0,) + cuts, cuts + (len(sv),))])
                       for cuts in itertools.combinations(range(1, len(sv)), k - 1))
            if got > best + 1e-9 * (1 + best):
                return "natural_breaks k=%d on %r: within-class SSD %r, optimum %r" % (k, sv.tolist(), got, best)
    return None


StandIn("c12_classifiers", _c12_cases, _c12_check,
        bound="random rasters up to 5x6 (float32/float64, ties, NaN/inf, values not representable in float32), k<=40 (quantile), "
              "k<=12 (equal_interval); NUMBA_DISABLE_JIT=1")
StandIn("c12_natural_breaks", lambda rng, tier: _c12_cases(rng, tier, ops=("natural_breaks",), jitter=(0, 1)), _c12_check,
        bound="natural_breaks vs brute-force optimal partition, n<=9 values (incl. 0.7/0.70000001/16777217 not representable in float32), "
              "k<=4; compiled (JIT on: the interpreted DP rounds differently)")
StandIn("c12_natural_breaks_near_duplicates", lambda rng, tier: _c12_cases(rng, tier, ops=("natural_breaks",), jitter=(1e-7,)), _c12_check,
        bound="as c12_natural_breaks, every value perturbed by < 1e-7 so that distinct values differ by ~1e-8 relative")


# =========================================================================== C10 / C01 / C11 over the API catalogue
def _snapshot(r):
    import copy
    data = np.array(r.data.compute() if hasattr(r.data, "compute") else r.data, copy=True)
    return dict(data=data, dtype=str(r.dtype), coords={k: np.array(v.values, copy=True) for k, v in r.coords.items()},
                attrs=copy.deepcopy(dict(r.attrs)), dims=tuple(r.dims), name=r.name, shape=tuple(r.shape))


def _arr_eq(a, b):
    a, b = np.asarray(a), np.asarray(b)
    if a.shape != b.shape:
        return False
    if a.dtype.kind == "f" or b.dtype.kind == "f":
        return bool(np.all((a == b) | (np.isnan(a) & np.isnan(b))))
    return bool(np.array_equal(a, b))


def _unchanged(r, snap, allow_dtype_widening=False):
    cur = _snapshot(r)
    if not _arr_eq(cur["data"], snap["data"]):
        return "values of the input changed"
    if cur["dtype"] != snap["dtype"] and not allow_dtype_widening:
        return "dtype of the input changed %s -> %s" % (snap["dtype"], cur["dtype"])
    if set(cur["coords"]) != set(snap["coords"]) or any(not _arr_eq(cur["coords"][k], snap["coords"][k]) for k in snap["coords"]):
        return "coordinates of the input changed"
    if cur["attrs"] != snap["attrs"]:
        return "attrs of the input changed: %r -> %r" % (snap["attrs"], cur["attrs"])
    if cur["dims"] != snap["dims"] or cur["name"] != snap["name"]:
        return "dims/name of the input changed"
    return None


def _build(case):
    import random as _random
    from contracts import api_cases as ac
    c = ac.CASES[case["case"]]
    rng = _random.Random(case["seed"])
    ac.CHUNK_OVERRIDE = case.get("chunks")
    try:
        return c, c["build"](rng, case["dtype"], case["layout"], case["backend"])
    finally:
        ac.CHUNK_OVERRIDE = None


def _c10_cases(rng, tier):
    from contracts import api_cases as ac
    names = sorted(ac.CASES)
    while True:
        n = rng.choice(names)
        c = ac.CASES[n]
        if c["jit"]:
            continue
        yield {"case": n, "dtype": rng.choice(c["dtypes"]), "layout": rng.choice(ac.LAYOUTS), "backend": rng.choice(c["backends"]),
               "seed": rng.randrange(10 ** 6)}


def _c10_check(case):
    import warnings
    import xarray as xr
    c, (fn, args, kwargs, rasters) = _build(case)
    snaps = [_snapshot(r) for r in rasters]
    with warnings.catch_warnings():
        warnings.simplefilter("ignore")
        import io, contextlib
        with contextlib.redirect_stdout(io.StringIO()):
            out = fn(*args, **kwargs)
    name = case["case"]
    for r, s in zip(rasters, snaps):
        why = _unchanged(r, s, allow_dtype_widening=(name == "viewshed"))
        if why:
            return "%s(%s, %s, %s): %s" % (name, case["dtype"], case["layout"], case["backend"], why)
    if isinstance(out, xr.DataArray):
        if case["backend"] == "numpy" and name not in ("trim", "crop"):
            for r in rasters:
                if isinstance(out.data, np.ndarray) and isinstance(r.data, np.ndarray) and np.shares_memory(out.data, r.data):
                    return "%s: output shares memory with an input" % name
        if case["backend"] == "numpy" and name not in ("trim", "crop") and isinstance(out.data, np.ndarray) and out.data.flags.writeable \
                and out.size:
            # writing to the output never changes the input
            before = [np.array(r.data, copy=True) for r in rasters]
            try:
                out.data[...] = 0
            except Exception:
                pass
            for r, b in zip(rasters, before):
                if not _arr_eq(r.data, b):
                    return "%s: writing to the output changed an input" % name
        if c["shape_preserving"]:
            src = rasters[0]
            s0 = snaps[0]
            if tuple(out.shape) != s0["shape"] or tuple(out.dims) != s0["dims"]:
                return "%s: output shape/dims %s %s differ from the input's %s %s" % (name, out.shape, out.dims, s0["shape"], s0["dims"])
            if set(out.coords) != set(s0["coords"]) or any(not _arr_eq(out.coords[k].values, s0["coords"][k]) for k in s0["coords"]):
                return "%s: output coordinates %s differ from the input's %s" % (name, sorted(out.coords), sorted(s0["coords"]))
            oa = dict(out.attrs)
            if name == "hotspots":
                oa.pop("unit", None)
            if oa != s0["attrs"]:
                return "%s: output attrs %r differ from the input's %r" % (name, oa, s0["attrs"])
            is_dask_in = hasattr(src.data, "compute")
            if is_dask_in != hasattr(out.data, "compute"):
                return "%s: array backend changed (input dask=%s, output dask=%s)" % (name, is_dask_in, hasattr(out.data, "compute"))
    return None


StandIn("c10_inputs_untouched", _c10_cases, _c10_check,
        bound="random calls from the API catalogue (contracts/api_cases.py): public functions x dtype {int8..uint64,float32,float64} x "
              "layout {C,F,non-contiguous view,read-only} x backend {numpy,dask}; before/after snapshots, np.shares_memory, "
              "write-to-output probe; NUMBA_DISABLE_JIT=1")


# ---------------------------------------------------------------- C01
def _compositions(n, rng):
    parts = []
    left = n
    while left > 0:
        k = rng.randint(1, left)
        parts.append(k)
        left -= k
    return tuple(parts)


C01_OPS = ["slope", "aspect", "curvature", "hillshade", "binary", "reclassify", "equal_interval", "convolution_2d", "focal_apply", "focal_stats",
           "hotspots", "focal_mean", "arvi", "evi", "gci", "nbr", "nbr2", "ndvi", "ndmi", "savi", "sipi", "ebbi", "true_color",
           "perlin", "generate_terrain"]
C01_GLOBAL = {"hotspots", "true_color", "perlin", "generate_terrain"}      # a global mean/min/max is reduced in a different order


def _c01_cases(rng, tier):
    from contracts import api_cases as ac
    while True:
        n = rng.choice(C01_OPS)
        c = ac.CASES[n]
        seed = rng.randrange(10 ** 6)
        # the builder draws the shape first; replicate to choose a chunking of that shape
        import random as _random
        r2 = _random.Random(seed)
        yield {"case": n, "dtype": rng.choice(c["dtypes"]), "layout": "C", "seed": seed,
               "chunk_seed": rng.randrange(10 ** 6), "scheduler": rng.choice(["synchronous", "threads1", "threads4", "threads16"])}


def _c01_check(case):
    import warnings
    import dask
    import random as _random
    import xarray as xr
    from contracts import api_cases as ac
    base = dict(case, backend="numpy")
    c, (fn, args, kwargs, rasters) = _build(base)
    shape = rasters[0].shape
    crng = _random.Random(case["chunk_seed"])
    chunks = (_compositions(shape[0], crng), _compositions(shape[1], crng))
    with warnings.catch_warnings():
        warnings.simplefilter("ignore")
        try:
            ref = fn(*args, **kwargs)
        except Exception as e:
            return None       # inputs on which the NumPy path raises are outside the equality claim
        c2, (fn2, args2, kwargs2, rasters2) = _build(dict(case, backend="dask", chunks=chunks))
        out = fn2(*args2, **kwargs2)
        if not hasattr(out.data, "compute"):
            return "%s: result of a Dask-backed call is not Dask-backed (%s)" % (case["case"], type(out.data).__name__)
        sch = case["scheduler"]
        kw = {"scheduler": "synchronous"} if sch == "synchronous" else {"scheduler": "threads", "num_workers": int(sch[7:])}
        try:
            got = out.data.compute(**kw)
        except Exception as e:
            return "%s chunks=%s: computing the Dask result raised %r (NumPy path succeeded)" % (case["case"], chunks, e)
    # exact, except: global reductions in a different order (property statement), and the nan-reducers of the focal
    # operators, which see a NaN-padded instead of a clipped window at block borders (summation order -> last-ulp rounding)
    tol = 1e-5 if case["case"] in C01_GLOBAL else (1e-12 if case["case"] in ("focal_mean", "focal_apply", "focal_stats") else 0.0)
    refv = np.asarray(ref.data)
    if refv.shape != got.shape:
        return "%s chunks=%s: shape %s vs NumPy %s" % (case["case"], chunks, got.shape, refv.shape)
    if not same(got, refv, tol):
        bad = np.argwhere(~((got == refv) | (np.isnan(got.astype("f8")) & np.isnan(refv.astype("f8")))))
        i = tuple(bad[0]) if len(bad) else None
        return "%s dtype=%s chunks=%s scheduler=%s: Dask result differs from NumPy at %s: %r vs %r" % (
            case["case"], case["dtype"], chunks, sch, i, got[i] if i else None, refv[i] if i else None)
    return None


StandIn("c01_dask_equals_numpy", _c01_cases, _c01_check,
        bound="random rasters 3..6 x 3..7 (NaN cells, int/float dtypes, non-square cells), every operation of the property that accepts "
              "Dask, random compositions of H and of W as chunks (incl. 1-cell chunks), schedulers {synchronous, threads x 1/4/16}; "
              "NUMBA_DISABLE_JIT=1")


# ---------------------------------------------------------------- C11: history independence vs a fresh interpreter
C11_OPS = ["proximity", "allocation", "direction", "focal_apply", "slope", "nbr", "reclassify", "perlin", "generate_terrain",
           "zonal_stats", "regions", "hillshade", "focal_mean", "binary", "convolution_2d"]


def digest(out):
    import hashlib
    import xarray as xr
    h = hashlib.sha256()
    if isinstance(out, xr.DataArray):
        v = out.data.compute() if hasattr(out.data, "compute") else out.data
        v = np.ascontiguousarray(np.asarray(v))
        h.update(str(v.dtype).encode() + str(v.shape).encode() + v.tobytes())
        for k in sorted(out.coords):
            h.update(k.encode() + np.ascontiguousarray(out.coords[k].values).tobytes())
        h.update(repr(sorted(out.attrs.items())).encode())
        return h.hexdigest()[:20] + " " + str(v.dtype) + str(v.shape)
    try:
        import pandas as pd
        if hasattr(out, "compute") and not isinstance(out, pd.DataFrame):
            out = out.compute()
        if isinstance(out, pd.DataFrame):
            return hashlib.sha256(out.to_json().encode()).hexdigest()[:20]
    except Exception:
        pass
    return hashlib.sha256(repr(out).encode()).hexdigest()[:20]


def run_single(case):
    """evaluate one catalogue call in this process; used by the fresh-interpreter reference"""
    import warnings, io, contextlib
    threads = case.get("threads")
    if threads and case.get("backend") == "dask":
        import dask
        dask.config.set(scheduler="threads", num_workers=threads)
    c, (fn, args, kwargs, rasters) = _build(case)
    with warnings.catch_warnings():
        warnings.simplefilter("ignore")
        with contextlib.redirect_stdout(io.StringIO()):
            try:
                out = fn(*args, **kwargs)
            except Exception as e:
                return "raised %s" % type(e).__name__
    return digest(out)


def _c11_cases(rng, tier):
    from contracts import api_cases as ac
    while True:
        seq = []
        for _ in range(rng.randint(3, 5)):
            n = rng.choice(C11_OPS)
            c = ac.CASES[n]
            dts = [d for d in c["dtypes"] if d in ("float64", "float32", "int32", "int64", "uint8")]
            seq.append({"case": n, "dtype": rng.choice(dts), "layout": "C", "backend": rng.choice(c["backends"]),
                        "seed": rng.randrange(10 ** 6), "threads": rng.choice([1, 4, 16])})
        if rng.random() < 0.5:
            seq.append(dict(seq[0]))      # repeat an earlier call after the others
        yield {"sequence": seq}


def _c11_check(case):
    import os, subprocess, sys, json as _json
    import concurrent.futures as cf
    here = os.path.dirname(os.path.abspath(__file__))
    runner = os.path.join(os.path.dirname(here), "pyvc", "api_runner.py")
    seq = case["sequence"]
    mine = [run_single(dict(c, threads=None)) for c in seq]          # this process carries the history of all earlier cases

    def fresh(c):
        env = dict(os.environ)
        env["NUMBA_NUM_THREADS"] = str(c.get("threads") or 1)
        p = subprocess.run([sys.executable, runner, "--single", _json.dumps(c)], capture_output=True, text=True, env=env, timeout=900)
        lines = [l for l in p.stdout.strip().splitlines() if l.strip()]
        if p.returncode != 0 or not lines:
            raise RuntimeError("fresh interpreter failed: %s" % p.stderr[-1500:])
        return _json.loads(lines[-1])["digest"]
    with cf.ThreadPoolExecutor(8) as pool:
        refs = list(pool.map(fresh, seq))
    for k, (a, b, c) in enumerate(zip(mine, refs, seq)):
        if a != b:
            return "call #%d of the sequence (%s %s %s seed=%d) gives %s after the earlier calls but %s in a fresh interpreter (threads=%s)" % (
                k, c["case"], c["dtype"], c["backend"], c["seed"], a, b, c.get("threads"))
    return None


StandIn("c11_history_vs_fresh_process", _c11_cases, _c11_check,
        bound="random sequences of 3-6 catalogue calls (proximity family with varying targets/max_distance/metric/mode, focal apply "
              "with varying kernels, classifiers, generators, zonal stats, ...) executed in one long-lived process (history accumulates "
              "over all cases) and compared bit-for-bit, call by call, with a fresh interpreter running that call alone under "
              "1/4/16 Numba/Dask threads; JIT on")


# =========================================================================== C19: distance strings, UNITS, spherical triangle
def _c19_cases(rng, tier):
    units = {"": 1.0, "m": 1.0, "meter": 1.0, "meters": 1.0, "km": 1000.0, "kilometer": 1000.0, "kilometers": 1000.0,
             "ft": 0.3048, "foot": 0.3048, "feet": 0.3048, "ml": 1609.344, "mls": 1609.344, "miles": 1609.344}
    nums = ["1", "10", "0.5", ".5", "3.25", "100", "0", "-1", "-0.5", "1e3", "abc", ""]
    while True:
        kind = rng.choice(["string", "string", "sphere", "kernel"])
        if kind == "string":
            n = rng.choice(nums)
            u = rng.choice(list(units) + ["parsec", "k m", "KM", "Meters"])
            sp = rng.choice(["", " ", "  "]) if u else ""
            yield {"kind": "string", "text": n + sp + u, "num": n, "unit": u}
        elif kind == "sphere":
            pts = [(rng.choice([-180.0, 180.0, 0.0, 179.9, -179.9, rng.uniform(-180, 180)]),
                    rng.choice([-90.0, 90.0, 0.0, 89.9, rng.uniform(-90, 90)])) for _ in range(3)]
            yield {"kind": "sphere", "pts": pts}
        else:
            cx, cy = rng.choice([1.0, 0.5, 2.0, 10.0, 0.1, 0.2, 0.3, 0.7]), rng.choice([1.0, 0.5, 3.0, 10.0, 0.1, 0.2, 0.3])
            if rng.random() < 0.5:
                # radius an exact decimal multiple of the (fractional) cell size
                k = rng.randint(1, 12)
                outer = round(k * rng.choice([cx, cy]), 10)
                inner = round(rng.randint(1, k) * rng.choice([cx, cy]) / 2, 10)
            else:
                outer, inner = rng.choice([1, 2, 3.5, 5, 10, 25]), rng.choice([0.5, 1, 2, 3])
            yield {"kind": "kernel", "cx": cx, "cy": cy, "outer": outer, "inner": inner}


def _c19_check(case):
    import importlib
    conv = importlib.import_module("xrspatial.convolution")
    prox = importlib.import_module("xrspatial.proximity")
    if case["kind"] == "string":
        units = {"m": 1.0, "meter": 1.0, "meters": 1.0, "km": 1000.0, "kilometer": 1000.0, "kilometers": 1000.0,
                 "ft": 0.3048, "foot": 0.3048, "feet": 0.3048, "ml": 1609.344, "mls": 1609.344, "miles": 1609.344}
        n, u = case["num"], case["unit"].lower().replace(" ", "")
        try:
            val = float(n)
            simple = n not in ("1e3",) and n != ""
        except ValueError:
            val, simple = None, False
        expect_ok = simple and val is not None and val > 0 and (u == "" or u in units) and not n.startswith("-")
        try:
            got = conv._get_distance(case["text"])
        except ValueError:
            got = None
        except Exception as e:
            return "_get_distance(%r) raised %r (only ValueError is a rejection)" % (case["text"], e)
        if expect_ok:
            exp = val * (units[u] if u else 1.0)
            if got is None or abs(got - exp) > 1e-9 * exp:
                return "_get_distance(%r) = %r, expected %r metres" % (case["text"], got, exp)
        else:
            if got is not None and (val is None or val <= 0 or (u and u not in units)):
                return "_get_distance(%r) = %r but the distance is non-positive or malformed and must be rejected" % (case["text"], got)
        return None
    if case["kind"] == "sphere":
        (a, b, c) = case["pts"]
        d = lambda p, q: float(prox.great_circle_distance(p[0], q[0], p[1], q[1]))
        dab, dbc, dac, dba = d(a, b), d(b, c), d(a, c), d(b, a)
        half = math.pi * 6378137
        if abs(dab - dba) > 1e-6:
            return "great circle not symmetric: %r vs %r for %r %r" % (dab, dba, a, b)
        if dab > half * (1 + 1e-12):
            return "great circle distance %r exceeds half the circumference" % dab
        if dac > dab + dbc + 1e-3:
            return "spherical triangle inequality violated: d(a,c)=%r > %r + %r for %r" % (dac, dab, dbc, case["pts"])
        if d(a, a) != 0.0:
            return "d(a,a) != 0"
        return None
    ko = conv.circle_kernel(case["cx"], case["cy"], case["outer"])
    if ko.shape[0] % 2 != 1 or ko.shape[1] % 2 != 1:
        return "circle_kernel has even shape %s" % (ko.shape,)
    if not (np.array_equal(ko, ko[::-1, :]) and np.array_equal(ko, ko[:, ::-1])):
        return "circle_kernel not symmetric under axis flips"
    hw, hh = int(case["outer"] / case["cx"]), int(case["outer"] / case["cy"])
    if ko.shape != (2 * hh + 1, 2 * hw + 1):
        return "circle_kernel shape %s, expected %s" % (ko.shape, (2 * hh + 1, 2 * hw + 1))
    for i in range(ko.shape[0]):
        for j in range(ko.shape[1]):
            e = 1.0 if ((j - hw) * hh) ** 2 + ((i - hh) * hw) ** 2 <= (hw * hh) ** 2 else 0.0
            if ko[i, j] != e:
                return "circle_kernel[%d,%d] = %r, ellipse equation gives %r" % (i, j, ko[i, j], e)
    if case["inner"] <= case["outer"]:
        an = conv.annulus_kernel(case["cx"], case["cy"], case["outer"], case["inner"])
        if an.min() < 0:
            return "annulus_kernel has a negative entry"
        ki = conv.circle_kernel(case["cx"], case["cy"], case["inner"])
        pr, pc = (ko.shape[0] - ki.shape[0]) // 2, (ko.shape[1] - ki.shape[1]) // 2
        pad = np.zeros_like(ko)
        pad[pr:pr + ki.shape[0], pc:pc + ki.shape[1]] = ki
        if not np.array_equal(an, ko - pad):
            return "annulus_kernel is not outer minus the centred inner circle"
    return None


StandIn("c19_distance_strings_and_sphere", _c19_cases, _c19_check,
        bound="generated distance strings (numbers x units x spacing x malformed forms), random point triples on the sphere incl. "
              "poles / antimeridian, circle / annulus kernels for radii <= 25 cells")


# =========================================================================== C02 / C03 / C04 zonal statistics and cross-tabulation
def _zonal_raster(rng, shape, kind):
    h, w = shape
    if kind == "int":
        pool = [0, 1, 2, 5, -3, 7]
        z = np.array([rng.choice(pool[:rng.randint(2, len(pool))]) for _ in range(h * w)], dtype="int64").reshape(h, w)
    else:
        pool = [0.0, 1.0, 2.5, -3.0, 7.0, 0.5]
        z = np.array([rng.choice(pool[:rng.randint(2, len(pool))]) for _ in range(h * w)], dtype="float64").reshape(h, w)
        for _ in range(rng.randint(0, 3)):
            z[rng.randrange(h), rng.randrange(w)] = rng.choice([np.nan, np.nan, np.inf, -np.inf])
    return z


def _value_raster(rng, shape, kind):
    h, w = shape
    if kind == "int":
        return np.array([rng.randint(-2, 6) for _ in range(h * w)], dtype="int64").reshape(h, w)
    v = np.array([rng.choice([0.0, 1.0, 2.0, 3.5, -1.0, 6.0, 1.0]) for _ in range(h * w)], dtype="float64").reshape(h, w)
    for _ in range(rng.randint(0, 3)):
        v[rng.randrange(h), rng.randrange(w)] = rng.choice([np.nan, np.inf, -np.inf, np.nan])
    return v


def _stats_cases(rng, tier, backend="numpy"):
    while True:
        shape = (rng.randint(1, 5), rng.randint(1, 6))
        zk, vk = rng.choice(["int", "float"]), rng.choice(["int", "float"])
        z = _zonal_raster(rng, shape, zk)
        v = _value_raster(rng, shape, vk)
        present = sorted(set(float(x) for x in z.ravel() if np.isfinite(x)))
        case = {"zones": enc(z), "values": enc(v), "backend": backend,
                "stats": rng.sample(["mean", "max", "min", "sum", "std", "var", "count"], rng.randint(1, 7)),
                "nodata": rng.choice([None, None, 0, 1, 3.5]),
                "return_type": "pandas.DataFrame" if backend == "dask" or rng.random() < 0.7 else "xarray.DataArray"}
        r = rng.random()
        if r < 0.5:
            case["zone_ids"] = None
        else:
            ids = rng.sample(present + [99.0], rng.randint(1, min(3, len(present) + 1))) if present else [99.0]
            rng.shuffle(ids)
            case["zone_ids"] = ids
        if backend == "dask":
            case["zchunks"] = [list(_compositions(shape[0], rng)), list(_compositions(shape[1], rng))]
            case["vchunks"] = case["zchunks"] if rng.random() < 0.5 else [list(_compositions(shape[0], rng)), list(_compositions(shape[1], rng))]
        yield case


def _ref_stat(name, vals):
    vals = np.asarray(vals, dtype="float64")
    if len(vals) == 0:
        return np.nan
    return {"mean": np.mean, "max": np.max, "min": np.min, "sum": np.sum, "std": np.std, "var": np.var,
            "count": lambda a: float(len(a))}[name](vals)


def _stats_check(case):
    import warnings
    import xarray as xr
    from xrspatial.zonal import stats
    z, v = dec_arr(case["zones"]), dec_arr(case["values"])
    be = case["backend"]
    if be == "dask":
        import dask.array as da
        zd = xr.DataArray(da.from_array(z, chunks=tuple(tuple(c) for c in case["zchunks"])))
        vd = xr.DataArray(da.from_array(v, chunks=tuple(tuple(c) for c in case["vchunks"])))
    else:
        zd, vd = xr.DataArray(z.copy()), xr.DataArray(v.copy())
    kw = dict(stats_funcs=list(case["stats"]), return_type=case["return_type"])
    if case["zone_ids"] is not None:
        kw["zone_ids"] = list(case["zone_ids"])
    if case["nodata"] is not None:
        kw["nodata_values"] = case["nodata"]
    present = sorted(set(float(x) for x in z.ravel() if np.isfinite(x)))
    sel = present if case["zone_ids"] is None else [p for p in present if p in set(float(i) for i in case["zone_ids"])]
    if be == "dask" and not sel:
        return None           # property domain: at least one requested zone exists
    with warnings.catch_warnings():
        warnings.simplefilter("ignore")
        try:
            out = stats(zd, vd, **kw)
            if be == "dask":
                out = out.compute()
        except Exception as e:
            if not present or not sel:
                return None   # degenerate: no zone at all
            return "stats raised %r" % e
    nod = case["nodata"]

    def valid(zid):
        m = (z == zid)
        vals = v[m]
        vals = vals[np.isfinite(vals)]
        if nod is not None:
            vals = vals[vals != nod]
        return vals
    if case["return_type"] == "pandas.DataFrame":
        got_zones = [float(x) for x in out["zone"].tolist()]
        if got_zones != sel:
            return "rows are zones %r, expected %r (ascending, restricted to requested zones that exist)" % (got_zones, sel)
        for r, zid in enumerate(sel):
            vals = valid(zid)
            for s in case["stats"]:
                exp = _ref_stat(s, vals)
                g = float(out[s].iloc[r])
                if not same(g, exp, 1e-9):
                    return "zone %r %s = %r, expected %r over valid cells %r" % (zid, s, g, exp, vals.tolist())
    else:
        arr = np.asarray(out.values)
        for k, s in enumerate(case["stats"]):
            exp = np.full(z.shape, np.nan)
            for zid in sel:
                exp[z == zid] = _ref_stat(s, valid(zid))
            if not same(arr[k].reshape(z.shape), exp, 1e-9):
                return "raster mode %s: got %r expected %r" % (s, arr[k].tolist(), exp.tolist())
    return None


StandIn("c02_zonal_stats", lambda rng, tier: _stats_cases(rng, tier, "numpy"), _stats_check,
        bound="random zone rasters up to 5x6 (int / float ids, negative and fractional, NaN / +-inf zone cells) x value rasters "
              "(ints, floats, NaN/inf) x nodata x zone_ids (any order, absent ids) x stat subsets x both return types; NumPy backend")
StandIn("c03_zonal_stats_dask", lambda rng, tier: _stats_cases(rng, tier, "dask"), _stats_check,
        bound="as c02_zonal_stats on Dask-backed rasters with independent random chunkings of zones and values, compared with the "
              "direct per-zone reference")


def _crosstab_cases(rng, tier, backend="numpy"):
    while True:
        shape = (rng.randint(1, 5), rng.randint(1, 6))
        z = _zonal_raster(rng, shape, rng.choice(["int", "float"]))
        three_d = rng.random() < 0.3
        if three_d:
            nl = rng.randint(1, 3)
            v = np.stack([_value_raster(rng, shape, "float") for _ in range(nl)])
        else:
            v = _value_raster(rng, shape, rng.choice(["int", "float"]))
        present = sorted(set(float(x) for x in z.ravel() if np.isfinite(x)))
        case = {"zones": enc(z), "values": enc(v), "backend": backend, "three_d": three_d,
                "agg": rng.choice(["count", "percentage"]) if not three_d else (
                    "count" if backend == "dask" else rng.choice(["count", "sum", "min", "max", "mean", "std", "var"])),
                "nodata": rng.choice([None, None, 0, 1])}
        if rng.random() < 0.5 and present:
            ids = rng.sample(present + [99.0], rng.randint(1, min(3, len(present) + 1)))
            rng.shuffle(ids)
            case["zone_ids"] = ids
        else:
            case["zone_ids"] = None
        cats = sorted(set(float(x) for x in v.ravel() if np.isfinite(x))) if not three_d else list(range(v.shape[0]))
        if rng.random() < 0.5 and cats and not three_d:
            c = rng.sample(cats + [77.0], rng.randint(1, min(3, len(cats) + 1)))
            rng.shuffle(c)
            case["cat_ids"] = c
        else:
            case["cat_ids"] = None
        if backend == "dask":
            case["zchunks"] = [list(_compositions(shape[0], rng)), list(_compositions(shape[1], rng))]
            case["vchunks"] = case["zchunks"] if rng.random() < 0.5 else [list(_compositions(shape[0], rng)), list(_compositions(shape[1], rng))]
        yield case


def _valid3(layer, m, nod):
    vals = layer[m]
    vals = vals[np.isfinite(vals)]
    if nod is not None:
        vals = vals[vals != nod]
    return vals


def _crosstab_check(case):
    import warnings
    import xarray as xr
    from xrspatial.zonal import crosstab
    z, v = dec_arr(case["zones"]), dec_arr(case["values"])
    be = case["backend"]
    three = case["three_d"]
    if be == "dask":
        import dask.array as da
        zc = tuple(tuple(c) for c in case["zchunks"])
        vc = tuple(tuple(c) for c in case["vchunks"])
        zd = xr.DataArray(da.from_array(z, chunks=zc), dims=["y", "x"])
        vd = xr.DataArray(da.from_array(v, chunks=((1,) * v.shape[0],) + vc if three else vc), dims=(["layer", "y", "x"] if three else ["y", "x"]))
    else:
        zd = xr.DataArray(z.copy(), dims=["y", "x"])
        vd = xr.DataArray(v.copy(), dims=(["layer", "y", "x"] if three else ["y", "x"]))
    if three:
        vd = vd.assign_coords(layer=list(range(v.shape[0])))
    kw = dict(agg=case["agg"])
    if case["zone_ids"] is not None:
        kw["zone_ids"] = list(case["zone_ids"])
    if case["cat_ids"] is not None:
        kw["cat_ids"] = list(case["cat_ids"])
    if case["nodata"] is not None:
        kw["nodata_values"] = case["nodata"]
    if three:
        kw["layer"] = 0
    present = sorted(set(float(x) for x in z.ravel() if np.isfinite(x)))
    sel = present if case["zone_ids"] is None else [p for p in present if p in set(float(i) for i in case["zone_ids"])]
    if not sel:
        return None
    nod = case["nodata"]
    if three:
        cats = list(range(v.shape[0]))
    else:
        fv = v[np.isfinite(v)]
        if nod is not None:
            fv = fv[fv != nod]
        allc = sorted(set(float(x) for x in fv))
        cats = allc if case["cat_ids"] is None else [c for c in allc if c in set(float(i) for i in case["cat_ids"])]
    with warnings.catch_warnings():
        warnings.simplefilter("ignore")
        try:
            out = crosstab(zd, vd, **kw)
            if be == "dask":
                out = out.compute()
        except Exception as e:
            if not cats:
                return None
            if three and any(len(_valid3(v[k], z == zid, nod)) == 0 for zid in sel for k in range(v.shape[0])):
                return None       # aggregate of an empty cell set (max/min/mean of nothing): degenerate, not claimed
            return "crosstab raised %r" % e
    got_zones = [float(x) for x in out["zone"].tolist()]
    if got_zones != sel:
        return "rows are zones %r, expected %r" % (got_zones, sel)
    cols = [c for c in out.columns if c != "zone"]
    if sorted(float(c) for c in cols) != [float(c) for c in cats] or len(set(cols)) != len(cols):
        return "columns are %r, expected exactly the categories %r (any order, each labelled)" % (cols, cats)
    for r, zid in enumerate(sel):
        m = (z == zid)
        if three:
            for k, c in enumerate(cols):
                vals = v[k][m]
                vals = vals[np.isfinite(vals)]
                if nod is not None:
                    vals = vals[vals != nod]
                exp = _ref_stat(case["agg"], vals) if len(vals) else np.nan
                g = float(out[c].iloc[r])
                if len(vals) == 0:
                    continue      # aggregate of an empty cell set: degenerate, not claimed
                if not same(g, exp, 1e-9):
                    return "zone %r layer %r %s = %r, expected %r" % (zid, c, case["agg"], g, exp)
        else:
            vals = v[m]
            vals = vals[np.isfinite(vals)]
            if nod is not None:
                vals = vals[vals != nod]
            total = len(vals)
            for c in cols:
                cnt = float(np.sum(vals == float(c)))
                exp = cnt if case["agg"] == "count" else (cnt / total * 100 if total else np.nan)
                g = float(out[c].iloc[r])
                if case["agg"] == "percentage" and total == 0 and (np.isnan(g) or g == 0):
                    continue
                if not same(g, exp, 1e-9):
                    return "zone %r category %r: %s = %r, expected %r (zone has %d valid cells)" % (zid, c, case["agg"], g, exp, total)
    return None


StandIn("c04_crosstab", lambda rng, tier: _crosstab_cases(rng, tier, "numpy"), _crosstab_check,
        bound="random zones/values up to 5x6 (2-D count/percentage, 3-D seven aggregates up to 3 layers), nodata, zone_ids / cat_ids "
              "subsets in random order incl. absent ids; NumPy backend")
StandIn("c03_crosstab_dask", lambda rng, tier: _crosstab_cases(rng, tier, "dask"), _crosstab_check,
        bound="as c04_crosstab on Dask-backed rasters with independent random chunkings of zones and values")


# =========================================================================== C17 local operators
LOCAL_OPS = ["cell_stats", "combine", "lesser_frequency", "equal_frequency", "greater_frequency", "lowest_position",
             "highest_position", "popularity", "rank"]


def _c17_cases(rng, tier):
    while True:
        shape = (rng.randint(1, 4), rng.randint(1, 5))
        nl = rng.randint(2, 6)
        pool = rng.choice([[1.0, 2.0, 3.0], [1.0, 1.0, 2.0, 5.0, -3.0], [0.5, 1.5, 2.5, 7.0]])
        layers = []
        for _ in range(nl):
            a = np.array([rng.choice(pool) for _ in range(shape[0] * shape[1])], dtype=rng.choice(["float64", "float64", "int64"])).reshape(shape)
            if a.dtype.kind == "f" and rng.random() < 0.4:
                a[rng.randrange(shape[0]), rng.randrange(shape[1])] = np.nan
            layers.append({"data": enc(a), "order": rng.choice(["C", "F", "view"])})
        ref = np.array([rng.randint(1, nl) for _ in range(shape[0] * shape[1])], dtype="int64").reshape(shape)
        op = rng.choice(LOCAL_OPS)
        yield {"op": op, "layers": layers, "ref": enc(ref), "func": rng.choice(["max", "mean", "median", "min", "std", "sum"]),
               "subset": rng.random() < 0.3}


def _layout(a, order):
    if order == "F":
        return np.asfortranarray(a)
    if order == "view":
        big = np.zeros((a.shape[0] * 2, a.shape[1] * 2), dtype=a.dtype)
        big[::2, ::2] = a
        return big[::2, ::2]
    return np.ascontiguousarray(a)


def _c17_check(case):
    import importlib, warnings
    import xarray as xr
    local = importlib.import_module("xrspatial.local")
    arrs = [_layout(dec_arr(l["data"]), l["order"]) for l in case["layers"]]
    ref = dec_arr(case["ref"])
    names = ["v%d" % i for i in range(len(arrs))]
    ds = xr.Dataset({n: xr.DataArray(a, dims=["y", "x"]) for n, a in zip(names, arrs)})
    ds["ref"] = xr.DataArray(ref, dims=["y", "x"])
    use = names[:-1] if case["subset"] and len(names) > 2 else names
    op = case["op"]
    kw = {"data_vars": list(use)}
    needs_ref = op in ("lesser_frequency", "equal_frequency", "greater_frequency", "popularity", "rank")
    if needs_ref:
        kw["ref_var"] = "ref"
    if op == "cell_stats":
        kw["func"] = case["func"]
    with warnings.catch_warnings():
        warnings.simplefilter("ignore")
        out = getattr(local, op)(ds, **kw)
    got = np.asarray(out.values, dtype="float64")
    h, w = ref.shape
    if got.shape != (h, w):
        return "%s: output shape %s, expected %s" % (op, got.shape, (h, w))
    ids = {}
    key = {}
    for y in range(h):
        for x in range(w):
            tup = tuple(float(a[y, x]) for a, n in zip(arrs, names) if n in use)
            r = int(ref[y, x])
            nan = any(np.isnan(t) for t in tup)
            if op == "cell_stats":
                exp = float({"max": np.max, "mean": np.mean, "median": np.median, "min": np.min, "std": np.std, "sum": np.sum}[case["func"]](tup))
                # NaN in any layer makes the cell NaN (np.* reducers propagate NaN)
            elif nan:
                exp = np.nan
            elif op == "combine":
                if tup not in ids:
                    ids[tup] = len(ids) + 1
                    key[ids[tup]] = tup
                exp = ids[tup]
            elif op == "lesser_frequency":
                exp = sum(1 for t in tup if t < r)
            elif op == "equal_frequency":
                exp = sum(1 for t in tup if t == r)
            elif op == "greater_frequency":
                exp = sum(1 for t in tup if t > r)
            elif op == "lowest_position":
                exp = tup.index(min(tup)) + 1
            elif op == "highest_position":
                exp = tup.index(max(tup)) + 1
            elif op == "rank":
                exp = sorted(tup)[r - 1] if r - 1 < len(tup) else np.nan
            elif op == "popularity":
                continue          # defined on ties of the value histogram; covered by its own clause below
            if not same(got[y, x], exp, 1e-12):
                return "%s at cell (%d,%d): layers %r ref %r -> %r, expected %r (layouts %s)" % (
                    op, y, x, tup, r, got[y, x], exp, [l["order"] for l in case["layers"]])
    if op == "combine":
        k = out.attrs.get("key")
        if {int(a): tuple(float(v) for v in b) for a, b in k.items()} != key:
            return "combine: attrs['key'] %r is not the id -> tuple map %r in first-occurrence order" % (k, key)
    return None


StandIn("c17_local_operators", _c17_cases, _c17_check,
        bound="random datasets of 2..6 layers up to 4x5 (ties, NaN, ints/floats), C / Fortran / non-contiguous layouts mixed, integer "
              "reference layer with values in 1..n, data_vars subsets; all operators except popularity's tie rule")


# =========================================================================== C06 / C07 proximity, allocation, direction
def _bearing(x1, x2, y1, y2):
    """the library's compass convention (docstring of direction / _calc_direction): 0 for the cell itself, otherwise
    atan2(-(y2-y1), x2-x1) in degrees turned into 90 = east, 180 = larger y, 270 = west, 360 = smaller y"""
    if x1 == x2 and y1 == y2:
        return 0.0
    d = math.degrees(math.atan2(-(y2 - y1), x2 - x1))
    theta = (90.0 - d) % 360.0
    return theta if theta > 1e-9 else 360.0       # documented: 360 to the north, 0 reserved for the cell itself


def _dist(metric, x1, x2, y1, y2):
    if metric == "EUCLIDEAN":
        return math.hypot(x1 - x2, y1 - y2)
    if metric == "MANHATTAN":
        return abs(x1 - x2) + abs(y1 - y2)
    lat1, lon1, lat2, lon2 = map(math.radians, (y1, x1, y2, x2))
    a = math.sin((lat2 - lat1) / 2) ** 2 + math.cos(lat1) * math.cos(lat2) * math.sin((lon2 - lon1) / 2) ** 2
    return 6378137 * 2 * math.asin(math.sqrt(a))


def _prox_grid(rng, small):
    if small:
        H, W = rng.choice([(1, 4), (2, 3), (3, 3), (3, 4), (4, 3), (2, 5), (4, 1)])
    else:
        H, W = rng.randint(1, 7), rng.randint(1, 7)
    return H, W


def _c06_cases(rng, tier, exhaustive=False):
    if exhaustive:
        for (H, W) in [(2, 3), (3, 3), (3, 4), (4, 3), (2, 5)] if tier == "thorough" else [(2, 3), (3, 3)]:
            for ysign in (1, -1):
                for bits in range(1, 2 ** (H * W)):
                    for metric in ("EUCLIDEAN", "MANHATTAN"):
                        yield {"H": H, "W": W, "cells": [(bits >> k) & 1 for k in range(H * W)], "ysign": ysign, "xstep": 2.0,
                               "ystep": 1.0, "metric": metric, "max_distance": None, "target_values": None, "exact": True}
        return
    while True:
        H, W = _prox_grid(rng, False)
        single = rng.random() < 0.25
        cells = [0] * (H * W)
        # cell values: small integers, or values that are not exactly representable in float32 (fractions, large ids, tiny)
        vals = rng.choice([[1, 2, 3, -1], [1, 2, 3, -1], [0.3, 0.7, 2.5], [20000001, 20000000, 16777217], [1e-60, 1.0, 3.0]])
        if single:
            cells[rng.randrange(H * W)] = rng.choice(vals)
        else:
            dens = rng.choice([0.1, 0.3, 0.6])
            cells = [rng.choice(vals) if rng.random() < dens else 0 for _ in range(H * W)]
        if rng.random() < 0.2:
            cells[rng.randrange(H * W)] = "nan"
        metric = rng.choice(["EUCLIDEAN", "MANHATTAN", "GREAT_CIRCLE"])
        case = {"H": H, "W": W, "cells": cells, "ysign": rng.choice([1, -1]), "metric": metric,
                "xstep": rng.choice([1.0, 2.0, 0.5]) if metric != "GREAT_CIRCLE" else rng.choice([1.0, 5.0]),
                "ystep": rng.choice([1.0, 3.0, 0.25]) if metric != "GREAT_CIRCLE" else rng.choice([1.0, 4.0]),
                "max_distance": rng.choice([None, None, 1.0, 1.5, 2.5, 4.0]) if metric != "GREAT_CIRCLE" else rng.choice([None, 300000.0]),
                "target_values": rng.choice([None, None, [vals[0]], vals[1:3], [0]]), "exact": single}
        yield case


def _c06_check(case, want_exact=None):
    import warnings, importlib
    import xarray as xr
    P = importlib.import_module("xrspatial.proximity")
    H, W = case["H"], case["W"]
    a = np.array([np.nan if c == "nan" else float(c) for c in case["cells"]], dtype="float64").reshape(H, W)
    ys = (np.arange(H) * case["ystep"])[::case["ysign"]].copy()
    xs = np.arange(W) * case["xstep"]
    if case["metric"] == "GREAT_CIRCLE":
        ys = ys - 20.0
        xs = xs - 10.0
    r = xr.DataArray(a, dims=["y", "x"], coords={"y": ys, "x": xs})
    kw = {"distance_metric": case["metric"]}
    if case["max_distance"] is not None:
        kw["max_distance"] = case["max_distance"]
    tv = case["target_values"]
    if tv is not None:
        kw["target_values"] = list(tv)
    with warnings.catch_warnings():
        warnings.simplefilter("ignore")
        p = np.asarray(P.proximity(r, **kw).data, dtype="float64")
        al = np.asarray(P.allocation(r, **kw).data, dtype="float64")
        di = np.asarray(P.direction(r, **kw).data, dtype="float64")
    if tv is None:
        T = [(i, j) for i in range(H) for j in range(W) if a[i, j] != 0 and np.isfinite(a[i, j])]
    else:
        T = [(i, j) for i in range(H) for j in range(W) if any(a[i, j] == t for t in tv)]
    md = case["max_distance"] if case["max_distance"] is not None else np.inf
    D = lambda i, j, t: _dist(case["metric"], xs[j], xs[t[1]], ys[i], ys[t[0]])
    tol = lambda d: 1e-5 * (1 + abs(d))
    for i in range(H):
        for j in range(W):
            pv = p[i, j]
            is_t = (i, j) in T
            if (pv == 0) != is_t and not (np.isnan(pv) and not is_t):
                if is_t or pv == 0:
                    return "cell (%d,%d): proximity %r but target=%s (proximity is 0 exactly on target cells)" % (i, j, pv, is_t)
            nearest = min([D(i, j, t) for t in T], default=np.inf)
            if np.isnan(pv):
                if not (np.isnan(al[i, j]) and np.isnan(di[i, j])):
                    return "cell (%d,%d): proximity NaN but allocation %r / direction %r" % (i, j, al[i, j], di[i, j])
                if T and md == np.inf:
                    return "cell (%d,%d): NaN although a target exists and max_distance is unbounded" % (i, j)
                if nearest <= md - tol(md) and (want_exact or case.get("exact")):
                    return "cell (%d,%d): NaN although a target lies within max_distance (%r <= %r)" % (i, j, nearest, md)
                continue
            if np.isnan(al[i, j]) or np.isnan(di[i, j]):
                return "cell (%d,%d): proximity %r but allocation %r / direction %r" % (i, j, pv, al[i, j], di[i, j])
            if pv < nearest - tol(nearest):
                return "cell (%d,%d): proximity %r is smaller than the distance %r to the nearest target" % (i, j, pv, nearest)
            if pv > md + tol(md):
                return "cell (%d,%d): proximity %r exceeds max_distance %r" % (i, j, pv, md)
            same_val = (lambda v, o: v == o) if case.get("exact_alloc") else (lambda v, o: float(np.float32(v)) == o or v == o)
            wit = [t for t in T if abs(D(i, j, t) - pv) <= tol(pv) and same_val(a[t], al[i, j])
                   and min(abs(_bearing(xs[j], xs[t[1]], ys[i], ys[t[0]]) - di[i, j]),
                           360.0 - abs(_bearing(xs[j], xs[t[1]], ys[i], ys[t[0]]) - di[i, j])) <= 1e-3]
            if not wit:
                return ("cell (%d,%d): proximity %r, allocation %r, direction %r do not name one real target "
                        "(targets %r)" % (i, j, pv, al[i, j], di[i, j], [(t, D(i, j, t), a[t]) for t in T][:6]))
            if (want_exact or case.get("exact")) and abs(pv - nearest) > tol(nearest):
                return "cell (%d,%d): proximity %r, exact nearest-target distance %r" % (i, j, pv, nearest)
    return None


StandIn("c06_proximity_soundness", lambda rng, tier: _c06_cases(rng, tier), _c06_check,
        bound="random rasters up to 7x7, default / explicit targets, NaN cells, metrics {EUCLIDEAN, MANHATTAN, GREAT_CIRCLE}, "
              "max_distance {inf, 1..4}, ascending/descending y, non-square cells: 0 iff target, witness target shared by "
              "proximity/allocation/direction, never below the nearest distance nor above max_distance; single targets exact; "
              "NUMBA_DISABLE_JIT=1")
def _c06_alloc_cases(rng, tier):
    for c in _c06_cases(rng, tier):
        if any(isinstance(v, (int, float)) and v not in (0, 1, 2, 3, -1) for v in c["cells"] if v != "nan"):
            yield dict(c, exact_alloc=True)


StandIn("c06_allocation_reports_exact_value", _c06_alloc_cases, _c06_check,
        bound="as c06_proximity_soundness restricted to rasters holding values that float32 cannot represent (0.3, 16777217, "
              "20000001, 1e-60): allocation must report the target's value exactly")
_ex = lambda rng, tier: _c06_cases(rng, tier, exhaustive=True)
_ex.exhaustive = True
StandIn("c06_proximity_exact_small_grids", _ex, lambda c: _c06_check(c, True),
        bound="every target layout on 2x3 and 3x3 grids (thorough: also 3x4, 4x3, 2x5), both y directions, EUCLIDEAN and MANHATTAN, "
              "non-square cells: proximity equals the exact nearest-target distance")


def _c07_cases(rng, tier):
    while True:
        H, W = rng.randint(2, 6), rng.randint(2, 6)
        dens = rng.choice([0.1, 0.3])
        cells = [rng.choice([1, 2, 3]) if rng.random() < dens else 0 for _ in range(H * W)]
        if not any(cells):
            cells[rng.randrange(H * W)] = 1
        ystep, xstep = rng.choice([1.0, 2.0]), rng.choice([1.0, 0.5, 2.0])
        mds = [0.5, 1.0, 1.4, 2.0, 2.5]
        md = rng.choice([None] + [m * rng.choice([ystep, xstep]) for m in mds])
        if md is not None and (int(md / ystep + 0.5) > H or int(md / xstep + 0.5) > W):
            md = None         # property domain: the halo does not exceed the raster's own height / width
        yield {"H": H, "W": W, "cells": cells, "ysign": rng.choice([1, -1]), "xstep": xstep, "ystep": ystep,
               "metric": rng.choice(["EUCLIDEAN", "MANHATTAN"]), "max_distance": md, "fn": rng.choice(["proximity", "allocation", "direction"]),
               "chunks": [list(_compositions(H, rng)), list(_compositions(W, rng))],
               "scheduler": rng.choice(["synchronous", "threads4"])}


def _c07_check(case):
    import warnings, importlib
    import dask.array as da
    import xarray as xr
    P = importlib.import_module("xrspatial.proximity")
    H, W = case["H"], case["W"]
    a = np.array(case["cells"], dtype="float64").reshape(H, W)
    ys = (np.arange(H) * case["ystep"])[::case["ysign"]].copy()
    xs = np.arange(W) * case["xstep"]
    coords = {"y": ys, "x": xs}
    kw = {"distance_metric": case["metric"]}
    if case["max_distance"] is not None:
        kw["max_distance"] = case["max_distance"]
    fn = getattr(P, case["fn"])
    with warnings.catch_warnings():
        warnings.simplefilter("ignore")
        base = np.asarray(fn(xr.DataArray(a, dims=["y", "x"], coords=coords), **kw).data)
        rd = xr.DataArray(da.from_array(a, chunks=tuple(tuple(c) for c in case["chunks"])), dims=["y", "x"], coords=coords)
        out = fn(rd, **kw)
        if not hasattr(out.data, "compute"):
            return "%s on a Dask raster returned a %s" % (case["fn"], type(out.data).__name__)
        kws = {"scheduler": "synchronous"} if case["scheduler"] == "synchronous" else {"scheduler": "threads", "num_workers": 4}
        try:
            got = out.data.compute(**kws)
        except Exception as e:
            return "%s chunks=%s max_distance=%r: compute raised %r" % (case["fn"], case["chunks"], case["max_distance"], e)
    if not same(got, base, 1e-6):
        return "%s chunks=%s max_distance=%r metric=%s: chunked result differs from the whole-raster result\n%r\nvs\n%r" % (
            case["fn"], case["chunks"], case["max_distance"], case["metric"], got.tolist(), base.tolist())
    return None


StandIn("c07_chunked_proximity", _c07_cases, _c07_check,
        bound="random rasters 2..6 x 2..6, every random composition of H and W as chunks, max_distance in {inf, 0.5..2.5 cells} "
              "(halo within the raster), both metrics, proximity/allocation/direction, ascending/descending y, non-square cells")


# =========================================================================== C14 A* path finding
def _dijkstra(a, s, g, conn, crossable):
    import heapq
    H, W = a.shape
    if not crossable(a[s]) or not crossable(a[g]):
        return None
    nb = [(0, 1), (1, 0), (0, -1), (-1, 0)] + ([(1, 1), (1, -1), (-1, 1), (-1, -1)] if conn == 8 else [])
    Dm = {s: 0.0}
    pq = [(0.0, s)]
    while pq:
        d, u = heapq.heappop(pq)
        if d > Dm[u]:
            continue
        if u == g:
            return d
        for dy, dx in nb:
            v = (u[0] + dy, u[1] + dx)
            if 0 <= v[0] < H and 0 <= v[1] < W and crossable(a[v]):
                nd = d + math.hypot(dy, dx)
                if nd < Dm.get(v, np.inf) - 1e-12:
                    Dm[v] = nd
                    heapq.heappush(pq, (nd, v))
    return None


def _c14_cases(rng, tier, exhaustive=False):
    if exhaustive:
        H = W = 3
        for bits in range(2 ** 9):
            cells = [(bits >> k) & 1 for k in range(9)]
            for s in itertools.product(range(H), range(W)):
                for g in itertools.product(range(H), range(W)):
                    for conn in (4, 8):
                        yield {"H": 3, "W": 3, "cells": cells, "s": list(s), "g": list(g), "conn": conn, "ystep": 1.0, "xstep": 1.0,
                               "yoff": 0.0, "xoff": 0.0, "ydesc": True, "snap": False, "frac": [0.0, 0.0, 0.0, 0.0]}
        return
    while True:
        H, W = rng.randint(2, 6), rng.randint(2, 6)       # a resolution needs at least two coordinates per axis
        dens = rng.choice([0.2, 0.4, 0.6])
        cells = [rng.choice([0, "nan"]) if rng.random() < dens else rng.choice([1, 2, 3]) for _ in range(H * W)]
        step = rng.choice([1.0, 0.1, 0.25, 3.0, 0.7])
        yield {"H": H, "W": W, "cells": cells, "s": [rng.randrange(H), rng.randrange(W)], "g": [rng.randrange(H), rng.randrange(W)],
               "conn": rng.choice([4, 8]), "ystep": step, "xstep": rng.choice([step, 2.0, 0.3]),
               "yoff": rng.choice([0.0, -7.7, 100.3]), "xoff": rng.choice([0.0, 5.5, -0.45]), "ydesc": rng.random() < 0.5,
               "snap": rng.random() < 0.4,
               # fractional offsets of the requested points from the cell centres (strictly inside the cell)
               "frac": [rng.choice([0.0, 0.0, 0.3, -0.3, 0.45, -0.45]) for _ in range(4)]}


_c14_ex = lambda rng, tier: _c14_cases(rng, tier, True)
_c14_ex.exhaustive = True


def _c14_check(case):
    import warnings
    import xarray as xr
    from xrspatial import a_star_search
    H, W = case["H"], case["W"]
    a = np.array([np.nan if c == "nan" else float(c) for c in case["cells"]], dtype="float64").reshape(H, W)
    ys = case["yoff"] + np.arange(H) * case["ystep"]
    if case["ydesc"]:
        ys = ys[::-1].copy()
    xs = case["xoff"] + np.arange(W) * case["xstep"]
    r = xr.DataArray(a, dims=["y", "x"], coords={"y": ys, "x": xs})
    s, g = tuple(case["s"]), tuple(case["g"])
    f = case["frac"]
    start = (ys[s[0]] + f[0] * case["ystep"], xs[s[1]] + f[1] * case["xstep"])
    goal = (ys[g[0]] + f[2] * case["ystep"], xs[g[1]] + f[3] * case["xstep"])
    crossable = lambda v: not np.isnan(v) and v != 0
    with warnings.catch_warnings():
        warnings.simplefilter("ignore")
        try:
            p = a_star_search(r, start, goal, barriers=[0], connectivity=case["conn"], snap_start=case["snap"], snap_goal=case["snap"]).data
        except ValueError as e:
            if H > 1 or W > 1:
                return "a_star_search raised %r for points inside the raster (start cell %r, goal cell %r)" % (e, s, g)
            return None
    # the named cells are the ones whose centre is nearest; snapping moves to the nearest crossable cell
    def snap(c):
        if crossable(a[c]) or not case["snap"]:
            return [c]
        cand = [(math.hypot(i - c[0], j - c[1]), (i, j)) for i in range(H) for j in range(W) if crossable(a[i, j])]
        if not cand:
            return []
        dmin = min(cand)[0]
        return [q for d, q in cand if abs(d - dmin) < 1e-9]
    S, G = snap(s), snap(g)
    best = None
    for s2 in S:
        for g2 in G:
            e = _dijkstra(a, s2, g2, case["conn"], crossable)
            # the implementation snaps deterministically; accept any nearest crossable cell
            if e is not None and not np.isnan(p[g2]) and abs(p[g2] - e) < 1e-9 and p[s2] == 0 and \
                    np.unravel_index(np.nanargmax(p), p.shape) == g2:
                best = (s2, g2, e)
    # ties between equally near crossable cells may be broken either way: the result must be right for one choice
    if best is None:
        if np.isnan(p).all() and (not S or not G or any(_dijkstra(a, s2, g2, case["conn"], crossable) is None for s2 in S for g2 in G)):
            return None
        if not S or not G or all(_dijkstra(a, s2, g2, case["conn"], crossable) is None for s2 in S for g2 in G):
            return "no route exists (start cell %r, goal cell %r, snap=%s) but the result is not all-NaN: %r" % (s, g, case["snap"], p.tolist())
        return ("route exists from cell %r to cell %r (requested points %r -> %r, coords y=%r x=%r, snap=%s) but the result has "
                "start/goal values %r / %r; expected shortest length %r" % (
                    s, g, start, goal, ys.tolist(), xs.tolist(), case["snap"], [p[q] for q in S], [p[q] for q in G],
                    [_dijkstra(a, s2, g2, case["conn"], crossable) for s2 in S for g2 in G]))
    s2, g2, e = best
    # the non-NaN cells form one chain from start to goal: neighbour steps adding exactly the step length, never through barriers
    cells = sorted([(p[i, j], (i, j)) for i in range(H) for j in range(W) if not np.isnan(p[i, j])])
    if cells[0][1] != s2 or cells[-1][1] != g2:
        return "path does not run from the start cell to the goal cell: %r" % cells
    for (d0, c0), (d1, c1) in zip(cells, cells[1:]):
        dy, dx = abs(c1[0] - c0[0]), abs(c1[1] - c0[1])
        if max(dy, dx) != 1 or (case["conn"] == 4 and dy + dx != 1):
            return "consecutive path cells %r -> %r are not %d-neighbours" % (c0, c1, case["conn"])
        if abs((d1 - d0) - math.hypot(dy, dx)) > 1e-9:
            return "step %r -> %r adds %r, not its length" % (c0, c1, d1 - d0)
        if not crossable(a[c1]):
            return "path enters a barrier / NaN cell %r" % (c1,)
    return None


StandIn("c14_a_star_small_grids", _c14_ex, _c14_check,
        bound="every barrier layout x start x goal x connectivity on 3x3 (82 944 cases) against Dijkstra")
StandIn("c14_a_star_random", _c14_cases, _c14_check,
        bound="random surfaces up to 6x6 with barriers and NaN, 4/8-connectivity, ascending/descending and fractional-step coordinates "
              "with offsets, requested points up to 0.45 cells off the centres, snapping on/off; against Dijkstra")


# =========================================================================== C16 regions
def _flood(a, n):
    H, W = a.shape
    lab = np.zeros((H, W), int)
    c = 0
    nb4 = [(0, 1), (1, 0), (0, -1), (-1, 0)]
    nb = nb4 + [(1, 1), (1, -1), (-1, 1), (-1, -1)] if n == 8 else nb4
    for i in range(H):
        for j in range(W):
            if lab[i, j] or np.isnan(a[i, j]):
                continue
            c += 1
            st = [(i, j)]
            lab[i, j] = c
            while st:
                y, x = st.pop()
                for dy, dx in nb:
                    yy, xx = y + dy, x + dx
                    if 0 <= yy < H and 0 <= xx < W and not lab[yy, xx] and a[yy, xx] == a[y, x]:
                        lab[yy, xx] = c
                        st.append((yy, xx))
    return lab


def _same_partition(l1, l2, mask):
    m, r = {}, {}
    for u, v in zip(l1[mask].ravel(), l2[mask].ravel()):
        if m.setdefault(u, v) != v or r.setdefault(v, u) != u:
            return False
    return True


def _c16_cases(rng, tier, exhaustive=False):
    if exhaustive:
        shapes = [(3, 3), (2, 4), (1, 6), (6, 1)] + ([(3, 4), (4, 3), (2, 6)] if tier == "thorough" else [])
        for (H, W) in shapes:
            for bits in range(2 ** (H * W)):
                for n in (4, 8):
                    yield {"H": H, "W": W, "cells": [(bits >> k) & 1 for k in range(H * W)], "n": n, "dtype": "float64"}
        return
    while True:
        H, W = rng.randint(1, 8), rng.randint(1, 8)
        k = rng.choice([2, 3, 4])
        cells = [rng.randrange(k) if rng.random() > 0.15 else "nan" for _ in range(H * W)]
        dt = rng.choice(["float64", "float32", "int32"])
        if dt == "int32":
            cells = [0 if c == "nan" else c for c in cells]
        yield {"H": H, "W": W, "cells": cells, "n": rng.choice([4, 8]), "dtype": dt}


_c16_ex = lambda rng, tier: _c16_cases(rng, tier, True)
_c16_ex.exhaustive = True


def _c16_check(case):
    import xarray as xr
    from xrspatial.zonal import regions
    H, W = case["H"], case["W"]
    a = np.array([np.nan if c == "nan" else float(c) for c in case["cells"]], dtype="float64").reshape(H, W).astype(case["dtype"])
    r = xr.DataArray(a, dims=["y", "x"], coords={"y": np.arange(H) * 2.0, "x": np.arange(W) * 1.0}, attrs={"res": (1, 2)})
    out = regions(r, neighborhood=case["n"])
    o = np.asarray(out.data, dtype="float64")
    af = a.astype("float64")
    m = ~np.isnan(af)
    if not np.isnan(o[~m]).all():
        return "NaN cells do not stay NaN"
    if not (o[m] > 0).all():
        return "labels are not all positive: %r" % o.tolist()
    if not _same_partition(o, _flood(af, case["n"]), m):
        return "labels %r are not the %d-connected components of %r" % (o.tolist(), case["n"], af.tolist())
    if out.shape != r.shape or out.dims != r.dims or dict(out.attrs) != dict(r.attrs) or not all(
            np.array_equal(out.coords[k].values, r.coords[k].values) for k in r.coords):
        return "shape / dims / coords / attrs differ from the input's"
    return None


StandIn("c16_regions_small_grids", _c16_ex, _c16_check,
        bound="every raster over {0,1} of shapes 3x3, 2x4, 1x6, 6x1 (thorough: + 3x4, 4x3, 2x6), neighbourhood 4/8, vs flood fill")
StandIn("c16_regions_random", _c16_cases, _c16_check,
        bound="random rasters up to 8x8 over 2-4 integer values with NaN cells, int32/float32/float64, neighbourhood 4/8, vs flood fill")


# =========================================================================== C15 polygonize
def _area2(p):
    x, y = p[:, 0], p[:, 1]
    return float(np.sum(x[:-1] * y[1:] - x[1:] * y[:-1]))


def _inside(p, px, py):
    c = False
    for k in range(len(p) - 1):
        x0, y0 = p[k]
        x1, y1 = p[k + 1]
        if (y0 > py) != (y1 > py):
            xi = x0 + (py - y0) * (x1 - x0) / (y1 - y0)
            if px < xi:
                c = not c
    return c


def _c15_cases(rng, tier, exhaustive=False):
    if exhaustive:
        shapes = [(3, 3), (2, 4), (1, 5), (5, 1), (1, 1)] + ([(3, 4), (2, 5)] if tier == "thorough" else [])
        for (H, W) in shapes:
            for bits in range(2 ** (H * W)):
                for conn in (4, 8):
                    yield {"H": H, "W": W, "cells": [(bits >> k) & 1 for k in range(H * W)], "mask": None, "conn": conn, "dtype": "int64",
                           "transform": None}
        return
    while True:
        H, W = rng.randint(1, 8), rng.randint(1, 8)
        k = rng.choice([2, 3])
        # small alphabets, or large ids / nearly equal values (distinct values must stay distinct regions)
        alphabet = rng.choice([[0, 1, 2], [0, 1, 2], [250000, 250001, 250002], [1000000, 1000001, -1000000], [7, 1000000, 1000001]])
        cells = [alphabet[rng.randrange(k)] for _ in range(H * W)]
        mask = [int(rng.random() < 0.8) for _ in range(H * W)] if rng.random() < 0.5 else None
        tr = [2.0, 0.0, 10.0, 0.0, -3.0, 5.0] if rng.random() < 0.3 else None
        # float rasters are compared with isclose(rtol=1e-5) by design: large / nearly equal values only for integer dtypes
        dts = ["int64", "int32"] if max(abs(v) for v in alphabet) > 100 else ["int64", "float64", "int32"]
        yield {"H": H, "W": W, "cells": cells, "mask": mask, "conn": rng.choice([4, 8]), "dtype": rng.choice(dts),
               "transform": tr}


_c15_ex = lambda rng, tier: _c15_cases(rng, tier, True)
_c15_ex.exhaustive = True


def _c15_check(case):
    import xarray as xr
    from xrspatial.experimental.polygonize import polygonize
    H, W = case["H"], case["W"]
    a = np.array(case["cells"], dtype=case["dtype"]).reshape(H, W)
    mask = None if case["mask"] is None else np.array(case["mask"], dtype=bool).reshape(H, W)
    tr = case["transform"]
    kw = {}
    if tr is not None:
        kw["transform"] = np.array(tr)
    col, polys = polygonize(xr.DataArray(a), mask=None if mask is None else xr.DataArray(mask), connectivity=case["conn"], **kw)
    cover = np.zeros((H, W), int)
    val = np.full((H, W), np.nan)
    for v, rings in zip(col, polys):
        rings = [np.asarray(r, dtype="float64") for r in rings]
        if tr is not None:
            # undo the affine map  x' = a x + b y + c, y' = d x + e y + f  (b = d = 0 here)
            rings = [np.column_stack([(r[:, 0] - tr[2]) / tr[0], (r[:, 1] - tr[5]) / tr[4]]) for r in rings]
        ext, holes = rings[0], rings[1:]
        if not np.array_equal(ext[0], ext[-1]) or _area2(ext) <= 0:
            return "exterior ring not closed / not anticlockwise: %r" % ext.tolist()
        for h in holes:
            if not np.array_equal(h[0], h[-1]) or _area2(h) >= 0:
                return "hole not closed / not clockwise: %r" % h.tolist()
        for r in rings:
            d = np.abs(np.diff(r, axis=0))
            if not (((d[:, 0] == 0) ^ (d[:, 1] == 0)).all() and np.allclose(r, np.round(r))):
                return "ring has a non axis-parallel edge or an off-corner vertex: %r" % r.tolist()
        cnt = 0
        for i in range(H):
            for j in range(W):
                if _inside(ext, j + .5, i + .5) and not any(_inside(h, j + .5, i + .5) for h in holes):
                    cover[i, j] += 1
                    val[i, j] = v
                    cnt += 1
        ar = (_area2(ext) + sum(_area2(h) for h in holes)) / 2
        if abs(ar - cnt) > 1e-9:
            return "polygon area %r differs from its cell count %d" % (ar, cnt)
    m = np.ones((H, W), bool) if mask is None else mask
    if not (cover[m] == 1).all():
        return "an unmasked cell is covered by %s polygons (cover map %r)" % ("0 or several", cover.tolist())
    if not (cover[~m] == 0).all():
        return "a masked cell is covered by a polygon"
    if not np.array_equal(val[m], a[m].astype(float)):
        return "rasterising the polygons does not give back the raster values"
    return None


StandIn("c15_polygonize_small_grids", _c15_ex, _c15_check,
        bound="every raster over {0,1} of shapes 3x3, 2x4, 1x5, 5x1, 1x1 (thorough: + 3x4, 2x5), connectivity 4/8: point-in-polygon "
              "rasterisation reproduces the raster, one polygon per cell, area = cell count, orientation, axis-parallel edges; JIT on")
StandIn("c15_polygonize_random", _c15_cases, _c15_check,
        bound="random rasters up to 8x8 over 2-3 values, int/float dtypes, with and without mask, connectivity 4/8, optional affine transform")


# =========================================================================== C05 viewshed vs an O(n^2) evaluation of the stated model
def _vs_ref(V, a, vr, vc, obs, tgt, ew, ns):
    """line-of-sight model of the property statement: every cell spans the bearings between its entering and exiting corner,
    with its gradient interpolated linearly corner -> centre -> corner; a cell is visible iff no nearer cell spanning its
    centre bearing has a greater gradient.  Tie rules at equal angles follow the sweep's event order (exit < centre < enter)."""
    PI = np.pi
    H, W = a.shape
    a = a.astype(float)
    vp_elev = a[vr, vc] + obs
    vt = tgt if tgt > 0 else 0.0
    out = np.full((H, W), -1.0)
    out[vr, vc] = 180

    def corner_elev(r, c, typ):
        r1, c1 = V._calculate_event_row_col(typ, r, c, vr, vc)
        if 0 <= r1 < H and 0 <= c1 < W:
            e = [a[r1, c1], a[r1, c], a[r, c1], a[r, c]]
            if any(np.isnan(x) for x in e):
                return a[r, c]
            return sum(e) / 4.0
        return a[r, c]
    nodes = {}
    for r in range(H):
        for c in range(W):
            if (r, c) == (vr, vc):
                continue
            ay0, ax0 = V._calc_event_pos(1, r, c, vr, vc)
            ay2, ax2 = V._calc_event_pos(-1, r, c, vr, vc)
            a0 = V._calculate_angle(ax0, ay0, vc, vr)
            a1 = V._calculate_angle(c, r, vc, vr)
            a2 = V._calculate_angle(ax2, ay2, vc, vr)
            e0, e2, e1 = corner_elev(r, c, 1), corner_elev(r, c, -1), a[r, c]
            g0 = V._calc_event_grad(ay0, ax0, e0, vr, vc, vp_elev, ew, ns)
            g2 = V._calc_event_grad(ay2, ax2, e2, vr, vc, vp_elev, ew, ns)
            key, g1 = V._calc_dist_n_grad(r, c, e1, vr, vc, vp_elev, ew, ns)
            _, gq = V._calc_dist_n_grad(r, c, e1 + vt, vr, vc, vp_elev, ew, ns)
            nodes[(r, c)] = dict(a=(a0, a1, a2), g=(g0, g1, g2), key=key, gq=gq, e1=e1)
    for q, nq in nodes.items():
        th = nq["a"][1]
        mx = -np.inf
        for n, nn in nodes.items():
            if n == q or not (nn["key"] < nq["key"]):
                continue
            a0, a1, a2 = nn["a"]
            if n[0] == vr and n[1] > vc:
                act = (th < a2) or (th > a0)
                A0, A1, A2 = (a0 - 2 * PI, a1, a2) if th < a2 else (a0, a1 + 2 * PI, a2 + 2 * PI)
            else:
                act = (a0 < th < a2)
                A0, A1, A2 = a0, a1, a2
            if not act or not (A0 <= th <= A2):
                continue
            g0, g1, g2 = nn["g"]
            if th < A1:
                g = g1 + (g0 - g1) * (A1 - th) / (A1 - A0)
            elif th > A1:
                g = g1 + (g2 - g1) * (th - A1) / (A2 - A1)
            else:
                g = g1
            mx = max(mx, g)
        if mx <= nq["gq"]:
            out[q] = V._get_vertical_ang(vp_elev, nq["key"], nq["e1"] + vt)
    return out


def _c05_cases(rng, tier, exhaustive=False):
    if exhaustive:
        allv = list(itertools.product((0, 1, 2), repeat=9))
        off = rng.randrange(len(allv)) if tier == "quick" else 0       # the quick tier starts at a seed-dependent terrain
        for vals in allv[off:] + allv[:off]:
            for vr in range(3):
                for vc in range(3):
                    yield {"H": 3, "W": 3, "cells": list(vals), "vr": vr, "vc": vc, "obs": 0.0, "tgt": 0.0, "dy": 1.0, "dx": 1.0}
        return
    while True:
        H, W = rng.randint(2, 7), rng.randint(2, 7)
        if rng.random() < 0.3:
            cells = [round(rng.random() * 3, 3) for _ in range(H * W)]
        else:
            cells = [rng.randrange(4) for _ in range(H * W)]
        yield {"H": H, "W": W, "cells": cells, "vr": rng.randrange(H), "vc": rng.randrange(W), "obs": rng.choice([-1.0, 0.0, 0.0, 2.5]),
               "tgt": rng.choice([0.0, 0.0, 1.0]), "dy": rng.choice([1.0, 1.0, 2.0, 0.5]), "dx": rng.choice([1.0, 1.0, 3.0])}


_c05_ex = lambda rng, tier: _c05_cases(rng, tier, True)
_c05_ex.exhaustive = True


def _c05_check(case):
    import importlib, warnings
    import xarray as xr
    V = importlib.import_module("xrspatial.viewshed")
    H, W = case["H"], case["W"]
    a = np.array(case["cells"], dtype="float64").reshape(H, W)
    r = xr.DataArray(a.copy(), dims=["y", "x"], coords={"y": np.arange(H)[::-1] * case["dy"], "x": np.arange(W) * case["dx"]})
    vr, vc = case["vr"], case["vc"]
    with warnings.catch_warnings():
        warnings.simplefilter("ignore")
        got = V.viewshed(r, x=r.x.data[vc], y=r.y.data[vr], observer_elev=case["obs"], target_elev=case["tgt"]).data
    ew = (r.x.data[-1] - r.x.data[0]) / (W - 1)
    ns = (r.y.data[-1] - r.y.data[0]) / (H - 1)
    exp = _vs_ref(V, a, vr, vc, case["obs"], case["tgt"], ew, ns)
    if got[vr, vc] != 180:
        return "observer cell is %r, not 180" % got[vr, vc]
    if not np.allclose(got, exp):
        bad = np.argwhere(~np.isclose(got, exp))
        i = tuple(bad[0])
        return "cell %r: viewshed gives %r, the line-of-sight model gives %r (terrain %r, observer %r)" % (i, got[i], exp[i], a.tolist(), (vr, vc))
    vis = got[(got != -1)]
    if ((vis < 0) | (vis > 180)).any():
        return "a visible cell has a vertical angle outside [0, 180]"
    return None


StandIn("c05_viewshed_3x3_exhaustive", _c05_ex, _c05_check,
        bound="all 3x3 terrains over {0,1,2} x all observer cells (177 147 cases; the quick tier covers the prefix that fits its budget) "
              "against the O(n^2) line-of-sight model; NUMBA_DISABLE_JIT=1")
StandIn("c05_viewshed_random", _c05_cases, _c05_check,
        bound="random terrains 2..7 x 2..7 with ties / plateaus / fractional heights, observer_elev {-1,0,2.5}, target_elev {0,1}, "
              "non-square cells, against the O(n^2) line-of-sight model; NUMBA_DISABLE_JIT=1")
