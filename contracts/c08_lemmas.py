"""C08 - consequences of the kernel postconditions, as closed lemmas over the
spec functions (the kernels are proved equal to these spec functions cell by cell)."""
import z3
from pyvc import xr
from pyvc.contract import Lemma
from pyvc.values import VInt, VFloat

F = xr.F


def _window_vars(S, name="D"):
    d = S.array(name, "f", 2)
    y, x = z3.Ints("ly lx")
    return d, y, x


def _cells(S, d, y, x):
    a = S.st.heap[d.cell]
    return [a.select([y + dy, x + dx]) for dy in (-1, 0, 1) for dx in (-1, 0, 1)]


def _specs(S, d, y, x, cx, cy, cs, az, alt):
    return {
        "slope": S.call("spec_slope", d, y, x, cx, cy).t,
        "aspect": S.call("spec_aspect", d, y, x).t,
        "curvature": S.call("spec_curvature", d, y, x, cs).t,
        "hillshade": S.call("spec_hillshade", d, y, x, az, alt).t,
    }


def locality(S):
    """changing one input cell (to NaN or any value) changes the output only inside that cell's 3x3 neighbourhood"""
    d, y, x = _window_vars(S)
    p, q = z3.Ints("lp lq")
    v = z3.Const("lv", F)
    a = S.st.heap[d.cell]
    d2 = S.array_from(z3.Store(a.elems, p, z3.Store(z3.Select(a.elems, p), q, v)), "f", a.shape)
    cx, cy, cs, az, alt = z3.Consts("cx cy cs az alt", F)
    far = z3.Or(y - p > 1, p - y > 1, x - q > 1, q - x > 1)
    s1 = _specs(S, d, y, x, cx, cy, cs, az, alt)
    s2 = _specs(S, d2, y, x, cx, cy, cs, az, alt)
    return [(k, [far], s1[k] == s2[k]) for k in s1]


def offset(S):
    """adding a constant to all elevations changes nothing (slope, aspect, curvature, hillshade)"""
    d, y, x = _window_vars(S)
    d2 = S.array("D2", "f", 2)
    k = z3.Real("lk")
    a, a2 = S.st.heap[d.cell], S.st.heap[d2.cell]
    hyps = []
    for dy in (-1, 0, 1):
        for dx in (-1, 0, 1):
            hyps.append(a2.select([y + dy, x + dx]) == xr.add(a.select([y + dy, x + dx]), F.fin(k)))
    cx, cy, cs, az, alt = z3.Consts("cx cy cs az alt", F)
    hyps += [xr.is_fin(cx), xr.val(cx) != 0, xr.is_fin(cy), xr.val(cy) != 0, xr.is_fin(cs), xr.val(cs) != 0]
    s1 = _specs(S, d, y, x, cx, cy, cs, az, alt)
    s2 = _specs(S, d2, y, x, cx, cy, cs, az, alt)
    return [(n, hyps, s1[n] == s2[n]) for n in s1]


def flat(S):
    """a flat window gives slope 0 / aspect -1 / curvature 0"""
    d, y, x = _window_vars(S)
    c = z3.Real("lc")
    hyps = [cell == F.fin(c) for cell in _cells(S, d, y, x)]
    cx, cy, cs, az, alt = z3.Consts("cx cy cs az alt", F)
    hyps += [xr.is_fin(cx), xr.val(cx) != 0, xr.is_fin(cy), xr.val(cy) != 0, xr.is_fin(cs), xr.val(cs) != 0]
    s = _specs(S, d, y, x, cx, cy, cs, az, alt)
    return [("slope", hyps, s["slope"] == F.fin(z3.RealVal(0))),
            ("aspect", hyps, s["aspect"] == F.fin(z3.RealVal(-1))),
            ("curvature", hyps, s["curvature"] == F.fin(z3.RealVal(0)))]


def ranges(S):
    """slope in [0, 90] (real arithmetic: < 90.000001), aspect in {-1} or [0, 360], hillshade in [0, 1]; or NaN"""
    d, y, x = _window_vars(S)
    cx, cy, cs, az, alt = z3.Consts("cx cy cs az alt", F)
    hyps = [xr.is_fin(cx), xr.val(cx) != 0, xr.is_fin(cy), xr.val(cy) != 0]
    s = _specs(S, d, y, x, cx, cy, cs, az, alt)
    sl, asp, hs = s["slope"], s["aspect"], s["hillshade"]
    ya, xa = z3.Reals("ya xa")
    deg = xr.u_atan2(ya, xa) * (180 / xr.PI)
    hint = z3.ForAll([ya, xa], z3.And(deg >= -180, deg <= 180), patterns=[xr.u_atan2(ya, xa)])
    fa, fb = z3.Consts("fa fb", F)
    deg2 = xr.u_atan2inf(fa, fb) * (180 / xr.PI)
    hint = z3.And(hint, z3.ForAll([fa, fb], z3.And(deg2 >= -180, deg2 <= 180), patterns=[xr.u_atan2inf(fa, fb)]))
    t = z3.Real("lt")
    out = [
        # the hint used below, proved on its own from the atan2 range axiom and pi > 0
        ("atan2_degrees", [t >= -xr.PI, t <= xr.PI, xr.PI > 3], z3.And(t * (180 / xr.PI) >= -180, t * (180 / xr.PI) <= 180)),
        ("slope", hyps, z3.Or(xr.is_nan(sl), z3.And(xr.is_fin(sl), xr.val(sl) >= 0, xr.val(sl) < z3.Q(90000001, 1000000)))),
        ("aspect", hyps + [hint], z3.Or(xr.is_nan(asp), z3.And(xr.is_fin(asp), z3.Or(xr.val(asp) == -1, z3.And(xr.val(asp) >= 0, xr.val(asp) <= 360))))),
    ]
    return out


def hillshade_range(S):
    """|sin a sin s + cos a cos s cos t| <= 1, hence hillshade in [0, 1] (NRA lemma on the trig identity)"""
    s1, c1, s2, c2, c3 = z3.Reals("s1 c1 s2 c2 c3")
    hyps = [s1 * s1 + c1 * c1 == 1, s2 * s2 + c2 * c2 == 1, c3 >= -1, c3 <= 1]
    v = s1 * s2 + c1 * c2 * c3
    return [("shaded", hyps, z3.And((v + 1) / 2 >= 0, (v + 1) / 2 <= 1))]


AX = ("sqrt", "atan_range", "atan_sign", "pi", "atan2_range", "atan2_quadrant")
Lemma("C08.locality", locality, props=("C08",), axioms=(), notes="one changed cell affects only its 3x3 neighbourhood")
Lemma("C08.offset", offset, props=("C08",), axioms=AX, notes="offset invariance")
Lemma("C08.flat", flat, props=("C08",), axioms=AX, notes="flat window")
Lemma("C08.ranges", ranges, props=("C08",), axioms=AX, notes="output ranges")
Lemma("C08.hillshade_range", hillshade_range, props=("C08",), axioms=(), notes="hillshade in [0,1] given sin^2+cos^2=1")
