"""Expected contents of the package's dispatch tables (name -> reducer / constant)."""
TABLES = [
    dict(module="xrspatial/zonal.py", name="_DEFAULT_STATS", props=("C02", "C04"), entries={
        "mean": "lambda z: z.mean()", "max": "lambda z: z.max()", "min": "lambda z: z.min()", "sum": "lambda z: z.sum()",
        "std": "lambda z: z.std()", "var": "lambda z: z.var()", "count": "lambda z: _stats_count(z)"}),
    dict(module="xrspatial/zonal.py", name="_DASK_BLOCK_STATS", props=("C03",), entries={
        "max": "lambda z: z.max()", "min": "lambda z: z.min()", "sum": "lambda z: z.sum()",
        "count": "lambda z: _stats_count(z)", "sum_squares": "lambda z: (z ** 2).sum()"}),
    # combiners over the per-block partial results (axis 0 = blocks): max of maxima, min of minima, sums of sums / counts /
    # sums of squares (NaN when every block partial is NaN)
    dict(module="xrspatial/zonal.py", name="_DASK_STATS", props=("C03",), entries={
        "max": "lambda block_maxes: np.nanmax(block_maxes, axis=0)", "min": "lambda block_mins: np.nanmin(block_mins, axis=0)",
        "sum": "lambda block_sums: _nansum_blocks(block_sums)", "count": "lambda block_counts: _nansum_blocks(block_counts)",
        "sum_squares": "lambda block_sum_squares: _nansum_blocks(block_sum_squares)",
        "squared_sum": "lambda block_sums: _nansum_blocks(block_sums) ** 2"}),
    dict(module="xrspatial/focal.py", name="_function_mapping", function="_focal_stats_cpu", props=("C09",), entries={
        "mean": "_calc_mean", "max": "_calc_max", "min": "_calc_min", "range": "_calc_range", "std": "_calc_std",
        "var": "_calc_var", "sum": "_calc_sum"}),
    dict(module="xrspatial/convolution.py", name="UNITS", props=("C19",), entries={
        "meter": "METER", "meters": "METER", "m": "METER", "feet": "FOOT", "foot": "FOOT", "ft": "FOOT",
        "miles": "MILE", "mls": "MILE", "ml": "MILE", "kilometer": "KILOMETER", "kilometers": "KILOMETER", "km": "KILOMETER"}),
]

# calls that must be present (normalised source) in a function body; `where`: 'anywhere' | 'toplevel'
CALLS = [
    dict(module="xrspatial/zonal.py", function="stats", call="validate_arrays(zones, values)", where="toplevel", props=("C03", "C02"),
         why="zones and values are made to have identical shape / backend / Dask chunks before blocks are paired"),
    dict(module="xrspatial/zonal.py", function="crosstab", call="validate_arrays(zones, values)", where="anywhere", props=("C03",),
         why="2-D crosstab pairs blocks of equally chunked rasters"),
    dict(module="xrspatial/zonal.py", function="_stats_dask_numpy", props=("C03",), where="anywhere",
         call="_dask_mean(stats_dict['sum'], stats_dict['count'])", why="mean = sum / count of the combined block partials"),
    dict(module="xrspatial/zonal.py", function="_stats_dask_numpy", props=("C03",), where="anywhere",
         call="_dask_var(stats_dict['sum_squares'], stats_dict['sum'] ** 2, stats_dict['count'])", why="var from sum of squares, squared sum, count"),
    dict(module="xrspatial/zonal.py", function="_stats_dask_numpy", props=("C03",), where="anywhere",
         call="_dask_std(stats_dict['sum_squares'], stats_dict['sum'] ** 2, stats_dict['count'])", why="std from the same three partials"),
    dict(module="xrspatial/zonal.py", function="_stats_dask_numpy", props=("C03",), where="anywhere",
         call="delayed(_single_stats_func)(z, v, unique_zones, zone_ids, stats_func, nodata_values)",
         why="every block is summarised against the *global* unique_zones"),
    dict(module="xrspatial/zonal.py", function="_dask_mean", props=("C03",), where="return", call="sums / counts", why="documented formula"),
    dict(module="xrspatial/zonal.py", function="_dask_var", props=("C03",), where="return", call="(sum_squares - squared_sum / n) / n", why="documented formula"),
    dict(module="xrspatial/zonal.py", function="_dask_std", props=("C03",), where="return", call="np.sqrt((sum_squares - squared_sum / n) / n)", why="documented formula"),
]

# C17: every local operator enumerates the cells with np.nditer(..., order='C') (row-major for any memory layout) and folds the
# flat result back with the raster's width
for _f in ("cell_stats", "combine", "lesser_frequency", "equal_frequency", "greater_frequency", "lowest_position",
           "highest_position", "popularity", "rank"):
    CALLS.append(dict(module="xrspatial/local.py", function=_f, where="anywhere", props=("C17",),
                      call="np.nditer([raster[var].data for var in data_vars], order='C')",
                      why="assumed NumPy contract: nditer with order='C' visits cells in row-major order whatever the memory layout"))
    CALLS.append(dict(module="xrspatial/local.py", function=_f, where="anywhere", props=("C17",),
                      call="np.reshape(final_arr, (-1, raster[data_vars[0]].data.shape[1]))",
                      why="flat cell k is folded back to (k // width, k % width)"))
TABLES.append(dict(module="xrspatial/local.py", name="funcs", props=("C17",), entries={
    "max": "np.max", "mean": "np.mean", "median": "np.median", "min": "np.min", "std": "np.std", "sum": "np.sum"}))

# C07: halo / fallback arithmetic of proximity._process._process_dask
_PD = dict(module="xrspatial/proximity.py", function="_process_dask", props=("C07",))
CALLS += [
    dict(_PD, where="assign:pad_y", call="int(max_distance / cellsize_y + 0.5)", why="rows of halo: the y cell size drives axis 0"),
    dict(_PD, where="assign:pad_x", call="int(max_distance / cellsize_x + 0.5)", why="columns of halo: the x cell size drives axis 1"),
    dict(_PD, where="anywhere", call="da.map_overlap(_process_numpy, raster.data, xs, ys, depth=(pad_y, pad_x), boundary=np.nan, meta=np.array(()))",
         why="data and both coordinate grids are mapped together, halo (rows, cols), NaN outside the raster"),
    dict(_PD, where="assign:raster.data", call="raster.data.rechunk({0: height, 1: width})", why="one block when max_distance reaches the extent"),
    dict(_PD, where="assign:xs", call="xs.rechunk({0: height, 1: width})", why="coordinate grids chunked like the data"),
    dict(_PD, where="assign:ys", call="ys.rechunk({0: height, 1: width})", why="coordinate grids chunked like the data"),
    dict(_PD, where="test", call="max_distance >= max_possible_distance", why="documented fallback condition"),
]

# C14: the cell lookup uses the rounding form proved in lemma C14.get_pixel_id, rows from y / cellsize_y, columns from x / cellsize_x
_GP = dict(module="xrspatial/pathfinding.py", function="_get_pixel_id", props=("C14",))
CALLS += [
    dict(_GP, where="assign:py", call="int(abs(point[0] - y_coords[0]) / cellsize_y + 0.5)", why="row index of the nearest centre"),
    dict(_GP, where="assign:px", call="int(abs(point[1] - x_coords[0]) / cellsize_x + 0.5)", why="column index of the nearest centre"),
    dict(_GP, where="return", call="(py, px)", why="(row, column)"),
    dict(module="xrspatial/pathfinding.py", function="_neighborhood_structure", props=("C14",), where="assign:neighbor_xs",
         call="[-1, -1, -1, 0, 0, 1, 1, 1]", why="8-neighbourhood offsets (x)"),
    dict(module="xrspatial/pathfinding.py", function="_neighborhood_structure", props=("C14",), where="assign:neighbor_ys",
         call="[-1, 0, 1, -1, 1, -1, 0, 1]", why="8-neighbourhood offsets (y)"),
]

# C16: the kernel's precondition n in {4, 8} is established by the wrapper's guard (the raise under it is the only statement)
CALLS.append(dict(module="xrspatial/zonal.py", function="regions", props=("C16",), where="test", call="neighborhood not in (4, 8)",
                  why="regions() rejects any other neighbourhood before calling _area_connectivity (requires n == 4 or n == 8)"))

# C15: the two implementations the generated_jit dispatcher _is_close can select, and its tolerances
_IC = dict(module="xrspatial/experimental/polygonize.py", function="_is_close", props=("C15",))
CALLS += [
    dict(_IC, where="return-any", call="lambda reference, value: value == reference", why="integers are compared exactly"),
    dict(_IC, where="return-any", call="lambda reference, value: abs(value - reference) <= atol + rtol * abs(reference)",
         why="floats: the isclose form the contract of _is_close assumes"),
    dict(_IC, where="assign:atol", call="1e-08", why="absolute tolerance"),
    dict(_IC, where="assign:rtol", call="1e-05", why="relative tolerance"),
]

# C07: the coordinate grids handed to the block function are chunked exactly like the data, and the block function is the one
# whose soundness is proved for any block (C06 glue contract): a chunk's non-NaN outputs name real targets of its padded block
_PP = dict(module="xrspatial/proximity.py", function="_process", props=("C07",))
CALLS += [
    dict(_PP, where="assign:xs", call="da.from_array(xs, chunks=raster.chunks)", why="x grid chunk-aligned with the data"),
    dict(_PP, where="assign:ys", call="da.from_array(ys, chunks=raster.chunks)", why="y grid chunk-aligned with the data"),
    dict(_PP, where="assign:xs", call="np.tile(raster[x].data, raster.shape[0]).reshape(raster.shape)", why="x coordinate of every cell (columns)"),
    dict(_PP, where="assign:ys", call="np.repeat(raster[y].data, raster.shape[1]).reshape(raster.shape)", why="y coordinate of every cell (rows)"),
    dict(_PP, where="assign:result", call="_process_dask(raster, xs, ys)", why="dask path"),
    dict(_PP, where="assign:result", call="_process_numpy(raster.data, xs, ys)", why="numpy path: the same block function on the whole raster"),
]
