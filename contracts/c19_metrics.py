"""C19 - distance metrics and circle / annulus kernels."""
from pyvc.contract import Contract

P = "xrspatial/proximity.py"
XY = {"x1": "float", "x2": "float", "y1": "float", "y2": "float"}
Contract(P, "euclidean_distance", XY, result="float", ensures=["same(result, spec_euclid(x1, x2, y1, y2))"],
         props=("C19", "C06"), axioms=("sqrt",))
Contract(P, "manhattan_distance", XY, result="float", ensures=["same(result, spec_manhattan(x1, x2, y1, y2))"],
         props=("C19", "C06"))

Contract(
    "xrspatial/convolution.py", "_ellipse_kernel", {"half_w": "int", "half_h": "int"},
    requires=["half_w >= 0", "half_h >= 0"],
    result="f2",
    ensures=[
        "result.shape[0] == 2 * half_h + 1 and result.shape[1] == 2 * half_w + 1",      # odd shape
        "all(result[i, j] == (1.0 if in_ellipse(i, j, half_w, half_h) else 0.0) "
        "for i in range(0, 2 * half_h + 1) for j in range(0, 2 * half_w + 1))",
    ],
    props=("C19",), kind="tier2",
    notes="np.linspace(-h, h, 2h+1)[i] == -h + i is an assumed NumPy contract",
    native={"opts": {"int_lo": 0, "int_hi": 5}},
)

OUT = "x1 > 180 or x1 < -180 or x2 > 180 or x2 < -180 or y1 > 90 or y1 < -90 or y2 > 90 or y2 < -90"
Contract(P, "great_circle_distance", dict(XY, radius="float"), result="float",
         raises={"ValueError": OUT},
         ensures=["same(result, spec_great_circle(x1, x2, y1, y2, radius))"],
         props=("C19", "C06"), axioms=("sqrt", "pi"),
         native={"opts": {"pool": [0.0, 10.0, -170.0, 180.0, -180.0, 90.0, -90.0, 45.5, 181.0, -91.0, 6378137.0, 1.0, float("nan")]}})
