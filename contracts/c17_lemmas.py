"""C17 - the three frequencies always sum to the layer count (for a cell without NaN): base case and induction step over
the recursive counting specs (the induction principle itself is the stated meta-argument)."""
import z3
from pyvc import xr
from pyvc.contract import Lemma


def partition(S):
    A = S.array("LA", "f", 2)
    r, n, ref = z3.Ints("lr ln lref")
    tot = lambda m: S.call("count_lt", A, r, ref, m).t + S.call("count_eq", A, r, ref, m).t + S.call("count_gt", A, r, ref, m).t
    a = S.st.heap[A.cell]
    out = [("base", [], tot(z3.IntVal(0)) == 0),
           ("step", [n >= 0, tot(n) == n, z3.Not(xr.is_nan(a.select([r, n])))], tot(n + 1) == n + 1)]
    return out


Lemma("C17.frequencies_partition", partition, props=("C17",), notes="lesser + equal + greater frequency = number of layers (non-NaN cell)")
