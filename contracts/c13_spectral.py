"""C13 - spectral index kernels equal their band formulas per cell; NaN where the denominator is zero."""
from pyvc.contract import Contract
from .common import pointwise_loops, pointwise_ensures

M = "xrspatial/multispectral.py"


def same_shape(first, others):
    return ["%s.shape[0] == %s.shape[0] and %s.shape[1] == %s.shape[1]" % (o, first, o, first) for o in others]


def kernel(name, bands, scalars, cell):
    first = bands[0]
    params = {b: "f2" for b in bands}
    params.update({s: "float" for s in scalars})
    Contract(
        M, name, params,
        lets=[("rows", "%s.shape[0]" % first), ("cols", "%s.shape[1]" % first)],
        requires=same_shape(first, bands[1:]),
        result="f2",
        ensures=pointwise_ensures(cell),
        loops=pointwise_loops("out", cell),
        props=("C13", "C01", "C10"),
        axioms=("sqrt",) if name == "_ebbi_cpu" else (),
        native={"gen": "gen_bands", "opts": {"bands": bands, "scalars": scalars}},
    )


kernel("_arvi_cpu", ["nir_data", "red_data", "blue_data"], [],
       lambda p, q: "spec_arvi(nir_data[%s, %s], red_data[%s, %s], blue_data[%s, %s])" % (p, q, p, q, p, q))
kernel("_evi_cpu", ["nir_data", "red_data", "blue_data"], ["c1", "c2", "soil_factor", "gain"],
       lambda p, q: "spec_evi(nir_data[%s, %s], red_data[%s, %s], blue_data[%s, %s], c1, c2, soil_factor, gain)" % (p, q, p, q, p, q))
kernel("_gci_cpu", ["nir_data", "green_data"], [],
       lambda p, q: "spec_gci(nir_data[%s, %s], green_data[%s, %s])" % (p, q, p, q))
kernel("_normalized_ratio_cpu", ["arr1", "arr2"], [],
       lambda p, q: "spec_nd(arr1[%s, %s], arr2[%s, %s])" % (p, q, p, q))
kernel("_savi_cpu", ["nir_data", "red_data"], ["soil_factor"],
       lambda p, q: "spec_savi(nir_data[%s, %s], red_data[%s, %s], soil_factor)" % (p, q, p, q))
kernel("_sipi_cpu", ["nir_data", "red_data", "blue_data"], [],
       lambda p, q: "spec_sipi(nir_data[%s, %s], red_data[%s, %s], blue_data[%s, %s])" % (p, q, p, q, p, q))
kernel("_ebbi_cpu", ["red_data", "swir_data", "tir_data"], [],
       lambda p, q: "spec_ebbi(red_data[%s, %s], swir_data[%s, %s], tir_data[%s, %s])" % (p, q, p, q, p, q))

# sigmoid normalisation used by true_color
_nc = lambda p, q: "spec_normalize(data[%s, %s], min_val, max_val, pixel_max, c, th)" % (p, q)
Contract(
    M, "_normalize_data_cpu",
    {"data": "f2", "min_val": "float", "max_val": "float", "pixel_max": "float", "c": "float", "th": "float"},
    lets=[("rows", "data.shape[0]"), ("cols", "data.shape[1]")],
    result="f2",
    ensures=[
        "result.shape[0] == rows and result.shape[1] == cols",
        "(max_val - min_val != 0) or all(isnan(result[p, q]) for p in range(0, rows) for q in range(0, cols))",
        "(not (max_val - min_val != 0)) or all(close(result[p, q], %s) for p in range(0, rows) for q in range(0, cols))" % _nc("p", "q"),
    ],
    loops=pointwise_loops("out", _nc),
    props=("C13", "C01", "C10"),
    axioms=("exp_pos",),
    native={"opts": {"maxdim": 4}},
)
