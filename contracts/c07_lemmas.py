"""C07 - the halo is wide enough: int(max_distance / cellsize + 0.5) >= floor(max_distance / cellsize), so every cell whose
integer offset is within max_distance lies inside the halo."""
import z3
from pyvc.contract import Lemma


def halo(S):
    md, cs, t = z3.Reals("md cs ht")
    k = z3.Int("hk")
    hyp = [md >= 0, cs > 0, t == md / cs]
    pad = z3.ToInt(t + z3.Q(1, 2))                      # int() truncates; the argument is >= 0
    return [("pad-covers-integer-offsets", hyp + [k >= 0, z3.ToReal(k) * cs <= md], k <= pad)]


Lemma("C07.halo", halo, props=("C07",), notes="a target k cells away with k*cellsize <= max_distance is inside a halo of int(max_distance/cellsize + 0.5) cells")
