"""C14 - the coordinate -> cell arithmetic of _get_pixel_id names the cell whose centre is nearest (real arithmetic)."""
import z3
from pyvc.contract import Lemma


def nearest_centre(S):
    y0, cs, pt, sg = z3.Reals("gy0 gcs gpt gsg")
    i = z3.Int("gi")
    centre = y0 + sg * z3.ToReal(i) * cs
    t = z3.If(pt - y0 >= 0, pt - y0, y0 - pt) / cs
    idx = z3.ToInt(t + z3.Q(1, 2))
    hyp = [cs > 0, z3.Or(sg == 1, sg == -1), i >= 0]
    off = pt - centre
    return [
        ("own-coordinate", hyp + [pt == centre], idx == i),
        ("nearest-centre", hyp + [off < cs / 2, off > -cs / 2], idx == i),
    ]


Lemma("C14.get_pixel_id", nearest_centre, props=("C14",),
      notes="int(|p - y0| / cellsize + 0.5) is the index of the nearest centre for uniformly spaced ascending or descending coordinates")
