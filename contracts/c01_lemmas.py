"""C01 - halo lemmas: what the kernel postconditions give, together with the assumed
Dask contract of map_overlap(depth=1, boundary=NaN), for block-wise == whole-array.

For a 3x3 stencil spec S and any block [r0, r1) x [c0, c1) of an array A, let P be
the block extended by one cell of A on every side and NaN outside A (exactly what
map_overlap hands to the mapped kernel).  The kernel's postcondition on P, read at
(1+i, 1+j) (what is left after trimming the halo), equals the kernel's
postcondition on A at (r0+i, c0+j): interior cells see the same 3x3 window, and a
border cell of A (NaN by the border clause) has a NaN-padded window in P, on which
the formula itself is NaN (NaN-boundary compatibility).
"""
import z3
from pyvc import xr
from pyvc.contract import Lemma

F = xr.F


def _halo(S, specname, extra):
    A = S.array("A", "f", 2)
    P = S.array("P", "f", 2)
    a, p = S.st.heap[A.cell], S.st.heap[P.cell]
    rows, cols = a.shape
    r0, r1, c0, c1 = z3.Ints("r0 r1 c0 c1")
    i, j = z3.Ints("hi hj")
    qi, qj = z3.Ints("qi qj")
    hyps = [0 <= r0, r0 < r1, r1 <= rows, 0 <= c0, c0 < c1, c1 <= cols,
            p.shape[0] == r1 - r0 + 2, p.shape[1] == c1 - c0 + 2,
            z3.ForAll([qi, qj], p.select([qi, qj]) == z3.If(
                z3.And(0 <= r0 - 1 + qi, r0 - 1 + qi < rows, 0 <= c0 - 1 + qj, c0 - 1 + qj < cols),
                a.select([r0 - 1 + qi, c0 - 1 + qj]), xr.NAN), patterns=[p.select([qi, qj])]),
            0 <= i, i < r1 - r0, 0 <= j, j < c1 - c0]
    ext = list(extra(S))

    def kout(arr, d, y, x):
        R, C = d.shape
        return z3.If(z3.And(1 <= y, y < R - 1, 1 <= x, x < C - 1), S.call(specname, arr, y, x, *ext).t, xr.NAN)
    goal = kout(P, p, 1 + i, 1 + j) == kout(A, a, r0 + i, c0 + j)
    return [("block", hyps, goal)]


def _consts(*names):
    return lambda S: [z3.Const(n, F) for n in names]


AX = ("sqrt", "pi")
Lemma("C01.halo.slope", lambda S: _halo(S, "spec_slope", _consts("cx", "cy")), props=("C01",), axioms=AX,
      notes="slope on a NaN-padded block, trimmed, equals slope on the whole array")
Lemma("C01.halo.aspect", lambda S: _halo(S, "spec_aspect", _consts()), props=("C01",), axioms=AX, notes="aspect halo lemma")
Lemma("C01.halo.curvature", lambda S: _halo(S, "spec_curvature", _consts("cs")), props=("C01",), axioms=AX, notes="curvature halo lemma")
Lemma("C01.halo.hillshade", lambda S: _halo(S, "spec_hillshade", _consts("az", "alt")), props=("C01",), axioms=AX, notes="hillshade halo lemma")
