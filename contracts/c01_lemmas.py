"""C01 - halo lemmas: what the kernel postconditions give, together with the assumed
Dask contract of map_overlap(depth=1, boundary=NaN), for block-wise == whole-array.

For a 3x3 stencil spec S and any block [r0, r1) x [c0, c1) of an array A, let P be
the block extended by one cell of A on every side and NaN outside A (exactly what
map_overlap hands to the mapped kernel).  The kernel's postcondition on P, read at
(1+i, 1+j) (what is left after trimming the halo), equals the kernel's
postcondition on A at (r0+i, c0+j): interior cells see the same 3x3 window, and a
border cell of A (NaN by the border clause) has a NaN-padded window in P, on which
the formula itself is NaN (NaN-boundary compatibility).
"""
import z3
from pyvc import xr
from pyvc.contract import Lemma

F = xr.F


def _halo(S, specname, extra):
    A = S.array("A", "f", 2)
    P = S.array("P", "f", 2)
    a, p = S.st.heap[A.cell], S.st.heap[P.cell]
    rows, cols = a.shape
    r0, r1, c0, c1 = z3.Ints("r0 r1 c0 c1")
    i, j = z3.Ints("hi hj")
    qi, qj = z3.Ints("qi qj")
    hyps = [0 <= r0, r0 < r1, r1 <= rows, 0 <= c0, c0 < c1, c1 <= cols,
            p.shape[0] == r1 - r0 + 2, p.shape[1] == c1 - c0 + 2,
            z3.ForAll([qi, qj], p.select([qi, qj]) == z3.If(
                z3.And(0 <= r0 - 1 + qi, r0 - 1 + qi < rows, 0 <= c0 - 1 + qj, c0 - 1 + qj < cols),
                a.select([r0 - 1 + qi, c0 - 1 + qj]), xr.NAN), patterns=[p.select([qi, qj])]),
            0 <= i, i < r1 - r0, 0 <= j, j < c1 - c0]
    ext = list(extra(S))

    def kout(arr, d, y, x):
        R, C = d.shape
        return z3.If(z3.And(1 <= y, y < R - 1, 1 <= x, x < C - 1), S.call(specname, arr, y, x, *ext).t, xr.NAN)
    goal = kout(P, p, 1 + i, 1 + j) == kout(A, a, r0 + i, c0 + j)
    return [("block", hyps, goal)]


def _consts(*names):
    return lambda S: [z3.Const(n, F) for n in names]


AX = ("sqrt", "pi")
Lemma("C01.halo.slope", lambda S: _halo(S, "spec_slope", _consts("cx", "cy")), props=("C01",), axioms=AX,
      notes="slope on a NaN-padded block, trimmed, equals slope on the whole array")
Lemma("C01.halo.aspect", lambda S: _halo(S, "spec_aspect", _consts()), props=("C01",), axioms=AX, notes="aspect halo lemma")
Lemma("C01.halo.curvature", lambda S: _halo(S, "spec_curvature", _consts("cs")), props=("C01",), axioms=AX, notes="curvature halo lemma")
Lemma("C01.halo.hillshade", lambda S: _halo(S, "spec_hillshade", _consts("az", "alt")), props=("C01",), axioms=AX, notes="hillshade halo lemma")


# ---- convolution with a kernel of symbolic (odd) size: block-wise == whole-array, by induction over the recursive window sums.
# conv_row / conv_win are the spec functions of the (proved) kernel contract of _convolve_2d_numpy.  Base and step of two inductions:
# (agree) if the block P shows the same cells as A (shifted by the block origin) then the partial sums agree;
# (nan)   a NaN cell in the window (the NaN padding outside A) makes the partial sum NaN - which is what the whole-array kernel
#         writes for a cell whose window does not fit.  The induction principle itself is the stated meta-argument.
def _conv_halo(S):
    K = S.array("HK", "f", 2)
    A = S.array("HA", "f", 2)
    P = S.array("HP", "f", 2)
    a, p = S.st.heap[A.cell], S.st.heap[P.cell]
    r, c, dr, dc, n, m, ka, ncols = z3.Ints("hr hc hdr hdc hn hm hka hncols")
    row = lambda arr, rr, cc, k: S.call("conv_row", K, arr, ka, rr, 0, cc, k).t
    win = lambda arr, rr, cc, k: S.call("conv_win", K, arr, rr, cc, ncols, k).t
    rowm = lambda arr, rr, cc: S.call("conv_row", K, arr, m, rr, 0, cc, ncols).t
    return [
        ("row.base", [], row(P, r, c, z3.IntVal(0)) == row(A, r + dr, c + dc, z3.IntVal(0))),
        ("row.step", [n >= 0, row(P, r, c, n) == row(A, r + dr, c + dc, n), p.select([r, c + n]) == a.select([r + dr, c + dc + n])],
         row(P, r, c, n + 1) == row(A, r + dr, c + dc, n + 1)),
        ("win.base", [], win(P, r, c, z3.IntVal(0)) == win(A, r + dr, c + dc, z3.IntVal(0))),
        ("win.step", [m >= 0, win(P, r, c, m) == win(A, r + dr, c + dc, m), rowm(P, r + m, c) == rowm(A, r + dr + m, c + dc)],
         win(P, r, c, m + 1) == win(A, r + dr, c + dc, m + 1)),
        ("nan.row.step", [n >= 0, z3.Or(xr.is_nan(row(P, r, c, n)), xr.is_nan(p.select([r, c + n])))], xr.is_nan(row(P, r, c, n + 1))),
        ("nan.win.step", [m >= 0, z3.Or(xr.is_nan(win(P, r, c, m)), xr.is_nan(rowm(P, r + m, c)))], xr.is_nan(win(P, r, c, m + 1))),
    ]


Lemma("C01.halo.convolution", _conv_halo, props=("C01", "C09"),
      notes="convolution_2d on a NaN-padded block (depth = kernel half-sizes), trimmed, equals convolution_2d on the whole array: "
            "base and step of the inductions over the window rows / columns")


# ---- focal.apply with a kernel of symbolic (odd) shape: the window the reducer receives for a trimmed cell of the NaN-padded block
# (depth = kernel half-shape) is, position by position, the window it receives for the same cell of the whole array - cells outside
# the raster are NaN in both (padding there, clipping here).  Equal windows give equal reducer results (the reducer is a function
# of the window array), so block-wise apply == whole-array apply.
def _window_halo(S):
    A = S.array("WA", "f", 2)
    P = S.array("WP", "f", 2)
    K = S.array("WK", "f", 2)
    a, p, k = S.st.heap[A.cell], S.st.heap[P.cell], S.st.heap[K.cell]
    rows, cols = a.shape
    krows, kcols = k.shape
    r0, r1, c0, c1, i, j, wa, wb = z3.Ints("wr0 wr1 wc0 wc1 wi wj wa wb")
    qi, qj = z3.Ints("wqi wqj")
    hr, hc = krows / 2, kcols / 2
    hyps = [krows >= 1, kcols >= 1, krows % 2 == 1, kcols % 2 == 1,
            0 <= r0, r0 < r1, r1 <= rows, 0 <= c0, c0 < c1, c1 <= cols,
            p.shape[0] == r1 - r0 + 2 * hr, p.shape[1] == c1 - c0 + 2 * hc,
            z3.ForAll([qi, qj], p.select([qi, qj]) == z3.If(
                z3.And(0 <= r0 - hr + qi, r0 - hr + qi < rows, 0 <= c0 - hc + qj, c0 - hc + qj < cols),
                a.select([r0 - hr + qi, c0 - hc + qj]), xr.NAN), patterns=[p.select([qi, qj])]),
            0 <= i, i < r1 - r0, 0 <= j, j < c1 - c0, 0 <= wa, wa < krows, 0 <= wb, wb < kcols]
    inner = S.call("win_cell", P, K, hr + i, hc + j, wa, wb, p.shape[0], p.shape[1], krows, kcols).t
    whole = S.call("win_cell", A, K, r0 + i, c0 + j, wa, wb, rows, cols, krows, kcols).t
    return [("window-cell", hyps, inner == whole)]


Lemma("C01.halo.focal_window", _window_halo, props=("C01", "C09"),
      notes="focal.apply on a NaN-padded block (depth = kernel half-shape): the reducer sees the same window as on the whole array")
