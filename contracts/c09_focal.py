"""C09 - focal kernels and 2-D convolution."""
from pyvc.contract import Contract, LoopSpec
from .common import pointwise_loops, pointwise_ensures

# ---- focal._calc_hotspots_numpy(z_array): confidence class with the sign of z
_hc = lambda p, q: "spec_hotspot(z_array[%s, %s])" % (p, q)
Contract(
    "xrspatial/focal.py", "_calc_hotspots_numpy", {"z_array": "f2"},
    lets=[("rows", "z_array.shape[0]"), ("cols", "z_array.shape[1]")],
    result="i2",
    ensures=[
        "result.shape[0] == rows and result.shape[1] == cols",
        "all(result[p, q] == %s for p in range(0, rows) for q in range(0, cols))" % _hc("p", "q"),
    ],
    loops={
        0: LoopSpec("for", inv=["all(out[p, q] == %s for p in range(0, y) for q in range(0, cols))" % _hc("p", "q")]),
        1: LoopSpec("for", inv=["all(out[p, q] == %s for p in range(0, y) for q in range(0, cols))" % _hc("p", "q"),
                                "all(out[y, q] == %s for q in range(0, x))" % _hc("y", "q")],
                    cut=["out[y, x] == %s" % _hc("y", "x")]),
    },
    props=("C09", "C01", "C10"),
)

# ---- convolution._convolve_2d_numpy(data, kernel)
# out[i, j] = sum_a sum_b kernel[a, b] * data[i - wkx + a, j - wky + b] where the window fits, NaN elsewhere
_cv = lambda p, q: "conv_win(kernel, data, %s - nkx // 2, %s - nky // 2, nky, nkx)" % (p, q)
_inside = "p >= nkx // 2 and p < nx - nkx // 2 and q >= nky // 2 and q < ny - nky // 2"
Contract(
    "xrspatial/convolution.py", "_convolve_2d_numpy", {"data": "f2", "kernel": "f2"},
    lets=[("nx", "data.shape[0]"), ("ny", "data.shape[1]"), ("nkx", "kernel.shape[0]"), ("nky", "kernel.shape[1]")],
    requires=["nkx >= 1 and nky >= 1", "nkx % 2 == 1 and nky % 2 == 1"],
    result="f2",
    ensures=[
        "result.shape[0] == nx and result.shape[1] == ny",
        "all(isnan(result[p, q]) for p in range(0, nx) for q in range(0, ny) if not (%s))" % _inside,
        "all(close(result[p, q], %s) for p in range(0, nx) for q in range(0, ny) if %s)" % (_cv("p", "q"), _inside),
    ],
    loops={
        0: LoopSpec("for", inv=[
            "all(isnan(out[p, q]) for p in range(0, nx) for q in range(0, ny) if p < wkx or p >= i or q < wky or q >= ny - wky)",
            "all(close(out[p, q], %s) for p in range(wkx, i) for q in range(wky, ny - wky))" % _cv("p", "q"),
        ]),
        1: LoopSpec("for", inv=[
            "all(isnan(out[p, q]) for p in range(0, nx) for q in range(0, ny) if p < wkx or p > i or q < wky or q >= ny - wky or (p == i and q >= j))",
            "all(close(out[p, q], %s) for p in range(wkx, i) for q in range(wky, ny - wky))" % _cv("p", "q"),
            "all(close(out[i, q], %s) for q in range(wky, j))" % _cv("i", "q"),
        ], cut=["close(out[i, j], %s)" % _cv("i", "j")]),
        2: LoopSpec("for", inv=[
            "close(num, conv_win(kernel, data, i - wkx, j - wky, nky, ii - iimin))",
        ]),
        3: LoopSpec("for", inv=[
            "close(num, conv_win(kernel, data, i - wkx, j - wky, nky, ii - iimin) + conv_row(kernel, data, ii - iimin, ii, 0, j - wky, jj - jjmin))",
        ]),
    },
    props=("C09", "C01", "C10", "C19"),
    native={"gen": "gen_conv"},
)

# ---- focal._equal_numpy(x, y): equal, or both NaN  (tiny helper: inlined from its real AST)
Contract("xrspatial/focal.py", "_equal_numpy", {"x": "float", "y": "float"}, inline=True, result="bool", props=("C09",),
         native={"skip": True})

# ---- focal._mean_numpy(data, excludes)
_fm = lambda p, q: "spec_focal_mean(data, %s, %s, rows, cols, excludes, ne)" % (p, q)
Contract(
    "xrspatial/focal.py", "_mean_numpy", {"data": "f2", "excludes": "f1"},
    lets=[("rows", "data.shape[0]"), ("cols", "data.shape[1]"), ("ne", "excludes.shape[0]")],
    result="f2",
    ensures=pointwise_ensures(_fm),
    loops={
        0: LoopSpec("for", inv=["all(close(out[p, q], %s) for p in range(0, y) for q in range(0, cols))" % _fm("p", "q")]),
        1: LoopSpec("for", inv=["all(close(out[p, q], %s) for p in range(0, y) for q in range(0, cols))" % _fm("p", "q"),
                                "all(close(out[y, q], %s) for q in range(0, x))" % _fm("y", "q")],
                    cut=["close(out[y, x], %s)" % _fm("y", "x")]),
        2: LoopSpec("for", index="k", inv=["not exclude", "all(not same(data[y, x], excludes[j]) for j in range(0, k))"],
                    post=["exclude == excluded(data[y, x], excludes, ne)"]),
    },
    props=("C09", "C01", "C10"),
    native={"opts": {"maxdim": 4}},
)

# ---- focal._apply_numpy(data, kernel, func): func is an arbitrary (uninterpreted) reducer of the window buffer
_W = "focal_window(data, kernel, %s, %s, rows, cols, krows, kcols)"
_wc = lambda a, b: "win_cell(data, kernel, y, x, %s, %s, rows, cols, krows, kcols)" % (a, b)
_ap = lambda p, q: "func(%s)" % (_W % (p, q))
Contract(
    "xrspatial/focal.py", "_apply_numpy", {"data": "f2", "kernel": "f2", "func": "func"},
    lets=[("rows", "data.shape[0]"), ("cols", "data.shape[1]"), ("krows", "kernel.shape[0]"), ("kcols", "kernel.shape[1]")],
    requires=["krows >= 1 and kcols >= 1", "krows % 2 == 1 and kcols % 2 == 1"],
    result="f2",
    ensures=pointwise_ensures(_ap),
    loops={
        0: LoopSpec("for", inv=[
            "kernel_values.shape[0] == krows and kernel_values.shape[1] == kcols",
            "all(close(out[p, q], %s) for p in range(0, y) for q in range(0, cols))" % _ap("p", "q")]),
        1: LoopSpec("for", inv=[
            "kernel_values.shape[0] == krows and kernel_values.shape[1] == kcols",
            "all(close(out[p, q], %s) for p in range(0, y) for q in range(0, cols))" % _ap("p", "q"),
            "all(close(out[y, q], %s) for q in range(0, x))" % _ap("y", "q")],
            cut=["close(out[y, x], %s)" % _ap("y", "x")]),
        # window rows already visited hold the window values, all later positions are still NaN
        2: LoopSpec("for", inv=[
            "kernel_values.shape[0] == krows and kernel_values.shape[1] == kcols",
            "all(same(kernel_values[a, b], %s) for a in range(0, ky - (y - hrows)) for b in range(0, kcols))" % _wc("a", "b"),
            "all(isnan(kernel_values[a, b]) for a in range(ky - (y - hrows), krows) for b in range(0, kcols))",
        ], post=["array_eq(kernel_values, %s)" % (_W % ("y", "x"))]),
        3: LoopSpec("for", inv=[
            "kernel_values.shape[0] == krows and kernel_values.shape[1] == kcols",
            "all(same(kernel_values[a, b], %s) for a in range(0, ky - (y - hrows)) for b in range(0, kcols))" % _wc("a", "b"),
            "all(same(kernel_values[ky - (y - hrows), b], %s) for b in range(0, kx - (x - hcols)))" % _wc("ky - (y - hrows)", "b"),
            "all(isnan(kernel_values[a, b]) for a in range(ky - (y - hrows) + 1, krows) for b in range(0, kcols))",
            "all(isnan(kernel_values[ky - (y - hrows), b]) for b in range(kx - (x - hcols), kcols))",
        ]),
    },
    props=("C09", "C01", "C10", "C11"),
    native={"gen": "gen_apply"},
)
