"""C19 lemmas: metric axioms for the spec distance functions (to which the real
functions are proved equal), great-circle bound, annulus non-negativity."""
import z3
from pyvc import xr
from pyvc.contract import Lemma

F = xr.F


def euclid(S):
    # on reals: d(p,q) = sqrt(dx^2 + dy^2) characterised by d >= 0 and d^2 = dx^2+dy^2 (sqrt axiom)
    x1, x2, y1, y2 = [F.fin(z3.Real(n)) for n in ("ex1", "ex2", "ey1", "ey2")]
    d12 = S.call("spec_euclid", x1, x2, y1, y2).t
    d21 = S.call("spec_euclid", x2, x1, y2, y1).t
    out = [("symmetric", [], d12 == d21),
           ("nonneg", [], z3.And(xr.is_fin(d12), xr.val(d12) >= 0)),
           ("zero-iff-coincident", [], (xr.val(d12) == 0) == z3.And(xr.val(x1) == xr.val(x2), xr.val(y1) == xr.val(y2)))]
    # triangle inequality on the characterisation
    u1, v1, u2, v2, a, b, c = z3.Reals("u1 v1 u2 v2 ta tb tc")
    hyp = [a >= 0, b >= 0, c >= 0, a * a == u1 * u1 + v1 * v1, b * b == u2 * u2 + v2 * v2,
           c * c == (u1 + u2) * (u1 + u2) + (v1 + v2) * (v1 + v2)]
    out.append(("triangle", hyp, c <= a + b))
    return out


def manhattan(S):
    x1, x2, x3, y1, y2, y3 = [F.fin(z3.Real(n)) for n in ("mx1", "mx2", "mx3", "my1", "my2", "my3")]
    d = lambda a, b, c, e: S.call("spec_manhattan", a, b, c, e).t
    d12, d21, d23, d13 = d(x1, x2, y1, y2), d(x2, x1, y2, y1), d(x2, x3, y2, y3), d(x1, x3, y1, y3)
    return [("symmetric", [], d12 == d21),
            ("zero-iff-coincident", [], (xr.val(d12) == 0) == z3.And(xr.val(x1) == xr.val(x2), xr.val(y1) == xr.val(y2))),
            ("triangle", [], xr.val(d13) <= xr.val(d12) + xr.val(d23))]


def great_circle(S):
    # named instances of trigonometric identities (axioms of real analysis) at the points the formula uses
    s_dlat, s_dlon, c1, c2, cd, cs, a, rt, asn, r = z3.Reals("s_dlat s_dlon c1 c2 cd cs ga grt gasn gr")
    hyp = [
        s_dlat * s_dlat <= 1, s_dlon * s_dlon <= 1,
        c1 >= 0, c2 >= 0,                                  # cos(lat) >= 0 for lat in [-pi/2, pi/2]
        c1 * c2 == (cd + cs) / 2,                          # cos u cos v = (cos(u-v) + cos(u+v)) / 2
        cd == 1 - 2 * s_dlat * s_dlat,                     # cos t = 1 - 2 sin^2(t/2), t = dlat
        cs <= 1, cs >= -1,
        a == s_dlat * s_dlat + c1 * c2 * (s_dlon * s_dlon),
    ]
    out = [("haversine-in-unit-interval", hyp, z3.And(a >= 0, a <= 1))]
    hyp2 = [a >= 0, a <= 1, rt >= 0, rt * rt == a, asn >= -xr.PI / 2, asn <= xr.PI / 2, r >= 0, xr.PI > 3]
    out.append(("at-most-half-circumference", hyp2, r * 2 * asn <= xr.PI * r))
    # symmetry: swapping the points negates dlat, dlon; sin is odd (instances), cos terms commute
    sp, sq, tp, tq = z3.Reals("sp sq tp tq")
    hyp3 = [sq == -sp, tq == -tp]                          # sin(-dlat/2) = -sin(dlat/2), sin(-dlon/2) = -sin(dlon/2)
    out.append(("symmetric", hyp3, sp * sp + c1 * c2 * (tp * tp) == sq * sq + c2 * c1 * (tq * tq)))
    # coincident points: dlat = dlon = 0, sin 0 = 0 -> a = 0 -> distance 0
    out.append(("coincident-gives-zero", [sp == 0, tp == 0, rt >= 0, rt * rt == sp * sp + c1 * c2 * (tp * tp)], rt == 0))
    return out


def annulus(S):
    """outer circle minus the centred inner circle is never negative: the padded inner ellipse lies inside the outer one"""
    i, j, wi, hi, wo, ho = z3.Ints("ai aj wi hi wo ho")
    hyp = [0 <= wi, wi <= wo, 0 <= hi, hi <= ho]
    pi_, pj = ho - hi, wo - wi          # the inner kernel is padded by (ho-hi) rows and (wo-wi) columns on each side
    inner = S.call("in_ellipse", i - pi_, j - pj, wi, hi).t
    outer = S.call("in_ellipse", i, j, wo, ho).t
    in_inner_box = z3.And(0 <= i - pi_, i - pi_ <= 2 * hi, 0 <= j - pj, j - pj <= 2 * wi)
    return [("inner-within-outer", hyp + [in_inner_box, inner], outer)]


def ellipse_symmetry(S):
    i, j, w, h = z3.Ints("ei ej ew eh")
    e = lambda a, b: S.call("in_ellipse", a, b, w, h).t
    return [("flip-rows", [], e(i, j) == e(2 * h - i, j)), ("flip-cols", [], e(i, j) == e(i, 2 * w - j))]


Lemma("C19.euclidean", euclid, props=("C19", "C06"), axioms=("sqrt",), notes="euclidean distance is a metric")
Lemma("C19.manhattan", manhattan, props=("C19", "C06"), notes="manhattan distance is a metric")
Lemma("C19.great_circle", great_circle, props=("C19",), axioms=("pi",), notes="great-circle: bounded by half the circumference, symmetric, zero on coincident points")
Lemma("C19.annulus", annulus, props=("C19",), timeout=180, notes="annulus kernel is non-negative")
Lemma("C19.ellipse_symmetry", ellipse_symmetry, props=("C19",), notes="circle kernel symmetric under both axis flips")
