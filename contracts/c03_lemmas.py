"""C03 - combiner lemmas: what the per-block partial aggregates give when combined."""
import z3
from pyvc.contract import Lemma


def combiners(S):
    s1, s2, q1, q2, n1, n2, S_, Q_, n = z3.Reals("s1 s2 q1 q2 n1 n2 cS cQ cn")
    m1, m2, M1, M2 = z3.Reals("m1 m2 M1 M2")
    out = []
    # mean of the union from (sum, count) partials
    out.append(("mean-of-union", [n1 > 0, n2 > 0], (s1 + s2) / (n1 + n2) == (n1 * (s1 / n1) + n2 * (s2 / n2)) / (n1 + n2)))
    # the code's variance expression equals E[x^2] - E[x]^2 for the combined partials
    out.append(("var-formula", [n > 0], (Q_ - (S_ * S_) / n) / n == Q_ / n - (S_ / n) * (S_ / n)))
    # two-block instance of E[x^2]-E[x]^2 = mean squared deviation, for blocks {a, b} and {c}
    a, b, c = z3.Reals("va vb vc")
    mu = (a + b + c) / 3
    out.append(("var-three-cells", [], ((a * a + b * b) + c * c - ((a + b) + c) * ((a + b) + c) / 3) / 3 ==
                ((a - mu) * (a - mu) + (b - mu) * (b - mu) + (c - mu) * (c - mu)) / 3))
    # max / min of block extrema
    mx = lambda x, y: z3.If(x >= y, x, y)
    out.append(("max-of-maxima", [M1 >= m1, M2 >= m2], mx(M1, M2) >= mx(m1, m2)))
    return out


Lemma("C03.combiners", combiners, props=("C03",), notes="sum/count/sum-of-squares partials combine to mean and variance")
