"""C12 - classification kernels."""
from pyvc.contract import Contract, LoopSpec
from .common import pointwise_loops, pointwise_ensures

M = "xrspatial/classify.py"
LETS = [("rows", "data.shape[0]"), ("cols", "data.shape[1]")]

# ---- _cpu_binary(data, values): 1 exactly on the listed values, 0 on other finite cells, NaN otherwise
_bc = lambda p, q: "spec_binary(data[%s, %s], values, nv)" % (p, q)
Contract(
    M, "_cpu_binary", {"data": "f2", "values": "f1"},
    lets=LETS + [("nv", "values.shape[0]")],
    result="f2",
    ensures=pointwise_ensures(_bc),
    loops=pointwise_loops("out", _bc),
    props=("C12", "C01", "C10"),
    native={"opts": {"maxdim": 4}, "fuzz_jit": False},
    notes="float rasters; on integer rasters the compiled kernel stores NaN into an integer array (outside the XR model)",
)

# ---- _cpu_bin(data, bins, new_values): hand-written binary search for the first bin >= value
_ok = lambda p, q, o="out": "bin_cell_ok(%s[%s, %s], data[%s, %s], bins, nb, new_values)" % (o, p, q, p, q)
_loops = {
    0: LoopSpec("for", inv=[
        "all(%s for p in range(0, y) for q in range(0, cols))" % _ok("p", "q"),
    ]),
    1: LoopSpec("for", inv=[
        "all(%s for p in range(0, y) for q in range(0, cols))" % _ok("p", "q"),
        "all(%s for q in range(0, x))" % _ok("y", "q"),
    ], cut=[_ok("y", "x")]),
    2: LoopSpec("while", inv=[
        "0 <= start and start <= end and end <= nb - 1",
        "mid == (end + start) // 2",
        "all(bins[i] < val for i in range(0, start))",
        "all(bins[i] >= val for i in range(end, nb))",
    ], decreases="end - start", post=[
        "0 <= mid and mid < nb",
        "is_first_bin(bins, mid, val)",
    ]),
}
Contract(
    M, "_cpu_bin", {"data": "f2", "bins": "f1", "new_values": "f1"},
    lets=LETS + [("nb", "bins.shape[0]")],
    requires=["nb >= 1", "new_values.shape[0] >= nb", "ascending(bins, nb)"],
    result="f2",
    ensures=[
        "result.shape[0] == rows and result.shape[1] == cols",
        "all(%s for p in range(0, rows) for q in range(0, cols))" % _ok("p", "q", "result"),
    ],
    loops=_loops,
    props=("C12", "C01", "C10"),
    native={"gen": "gen_bins"},
)
