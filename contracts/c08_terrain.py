"""C08 - slope / aspect / curvature kernels: local 3x3 formulas, NaN borders."""
from pyvc.contract import Contract
from .common import stencil_loops, stencil_ensures

LETS = [("rows", "data.shape[0]"), ("cols", "data.shape[1]")]
AX = ("sqrt", "atan_range", "atan_sign", "pi")

# ---- slope._cpu(data, cellsize_x, cellsize_y)
_sl = lambda p, q: "spec_slope(data, %s, %s, cellsize_x, cellsize_y)" % (p, q)
Contract(
    "xrspatial/slope.py", "_cpu", {"data": "f2", "cellsize_x": "float", "cellsize_y": "float"},
    lets=LETS,
    raises={"ZeroDivisionError": "cellsize_x == 0 or cellsize_y == 0"},
    result="f2",
    ensures=stencil_ensures(_sl),
    loops=stencil_loops("out", _sl),
    props=("C08", "C01", "C10"),
    axioms=("sqrt",),
    native={"raises_iff": False, "opts": {"maxdim": 5}},
)

# ---- aspect._run_numpy(data)
_as = lambda p, q: "spec_aspect(data, %s, %s)" % (p, q)
Contract(
    "xrspatial/aspect.py", "_run_numpy", {"data": "f2"},
    lets=LETS,
    result="f2",
    ensures=stencil_ensures(_as),
    loops=stencil_loops("out", _as),
    props=("C08", "C01", "C10"),
    axioms=("pi",),
    native={"opts": {"maxdim": 5}},
)

# ---- curvature._cpu(data, cellsize)
_cu = lambda p, q: "spec_curvature(data, %s, %s, cellsize)" % (p, q)
Contract(
    "xrspatial/curvature.py", "_cpu", {"data": "f2", "cellsize": "float"},
    lets=LETS,
    raises={"ZeroDivisionError": "cellsize * cellsize == 0"},
    result="f2",
    ensures=stencil_ensures(_cu),
    loops=stencil_loops("out", _cu),
    props=("C08", "C01", "C10"),
    native={"raises_iff": False, "opts": {"maxdim": 5}},
)

# ---- hillshade._run_numpy(data, azimuth, angle_altitude)   (Tier 2: whole-array NumPy expressions)
_hs = lambda p, q: "spec_hillshade(data, %s, %s, azimuth, angle_altitude)" % (p, q)
Contract(
    "xrspatial/hillshade.py", "_run_numpy", {"data": "f2", "azimuth": "float", "angle_altitude": "float"},
    lets=LETS,
    raises={"ValueError": "rows < 2 or cols < 2"},
    result="f2",
    ensures=stencil_ensures(_hs),
    props=("C08", "C01", "C10"),
    axioms=("pi", "sqrt"),
    kind="tier2",
    notes="np.gradient is an assumed NumPy contract",
    native={"opts": {"maxdim": 5}},
)
