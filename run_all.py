"""runs every check of MANIFEST.json (quick tier by default) and prints one line per property"""
import json, subprocess, sys, time, concurrent.futures as cf
m = json.load(open("MANIFEST.json"))
tier = sys.argv[1] if len(sys.argv) > 1 else "quick"
j = int(sys.argv[2]) if len(sys.argv) > 2 else 2


def run(c):
    t = time.time()
    p = subprocess.run(c["%s_cmd" % tier], shell=True, capture_output=True, text=True)
    last = [l for l in p.stdout.splitlines() if l.strip()][-1:] or [""]
    viol = [l for l in p.stdout.splitlines() if l.startswith(("VIOLATION", "CHECKER", "UNDECIDED", "KNOWN"))]
    return c["property_id"], p.returncode, round(time.time() - t), last[0], viol[:3]


with cf.ThreadPoolExecutor(j) as pool:
    bad = 0
    for pid, rc, secs, last, viol in pool.map(run, m["checks"]):
        print("%s rc=%d %4ds %s" % (pid, rc, secs, last))
        for v in viol:
            print("     " + v[:220])
        bad += rc != 0
print("all ok" if not bad else "%d checks not ok" % bad)
