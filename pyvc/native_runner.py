"""Runs under /venv/bin/python (the repository's interpreter; no z3 here).

Evaluates contracts *natively* on the real functions of /repo:
  * replay  - one concrete input (a concretised solver model)
  * fuzz    - bounded stand-in: random / enumerated small inputs filtered by `requires`
Input: a JSON job on stdin.  Output: one JSON object on stdout (last line).
"""
import ast
import copy
import importlib
import itertools
import json
import math
import os
import random
import sys
import time

sys.path.insert(0, os.path.dirname(os.path.dirname(os.path.abspath(__file__))))
REPO = os.environ.get("PYVC_REPO", "/repo")
sys.path.insert(0, REPO)

import numpy as np  # noqa: E402


# ----------------------------------------------------------------------------- spec evaluation
def implies(a, b):
    return (not a) or b


def iff(a, b):
    return bool(a) == bool(b)


def ite(c, a, b):
    return a if c else b


def _isnan(x):
    try:
        return math.isnan(x)
    except TypeError:
        return False


def _isfinite(x):
    try:
        return math.isfinite(x)
    except TypeError:
        return True


def _isinf(x):
    try:
        return math.isinf(x)
    except TypeError:
        return False


class _OldXform(ast.NodeTransformer):
    """old(E): names of the pre-state are read from __old__, bound variables of enclosing quantifiers stay live"""

    def __init__(self, old_names):
        self.old_names = old_names
        self.inside = 0

    def visit_Call(self, node):
        if isinstance(node.func, ast.Name) and node.func.id == "old":
            self.inside += 1
            inner = self.visit(node.args[0])
            self.inside -= 1
            return inner
        return self.generic_visit(node)

    def visit_Name(self, node):
        if self.inside and node.id in self.old_names and isinstance(node.ctx, ast.Load):
            return ast.copy_location(ast.Subscript(value=ast.Name(id="__old__", ctx=ast.Load()),
                                                   slice=ast.Constant(value=node.id), ctx=ast.Load()), node)
        return node


def close(a, b, rel=2e-4, ab=2e-5):
    """value identity up to float32 rounding (exact identity incl. NaN in the symbolic model)"""
    try:
        if math.isnan(a) or math.isnan(b):
            return math.isnan(a) and math.isnan(b)
        if math.isinf(a) or math.isinf(b):
            return a == b
    except TypeError:
        return a == b
    return abs(a - b) <= ab + rel * max(abs(a), abs(b))


def _np1(f):
    def g(x):
        with np.errstate(all="ignore"):
            return float(f(np.float64(x)))
    return g


def _atan2(a, b):
    with np.errstate(all="ignore"):
        return float(np.arctan2(np.float64(a), np.float64(b)))


def _nanred(f):
    def g(a):
        import warnings
        with warnings.catch_warnings():
            warnings.simplefilter("ignore")
            with np.errstate(all="ignore"):
                a = np.asarray(a)
                if a.size == 0:
                    return float("nan")
                return float(f(a))
    return g


def array2(f, n, m):
    return np.array([[f(a, b) for b in range(m)] for a in range(n)], dtype=np.float32).reshape(n, m)


def array_eq(a, b):
    a, b = np.asarray(a), np.asarray(b)
    return a.shape == b.shape and bool(np.all((a == b) | (np.isnan(a) & np.isnan(b))))


def valid_values(a, nodata):
    a = np.asarray(a)
    with np.errstate(all="ignore"):
        return a[np.isfinite(a) & (a != nodata)]


def spec_env():
    specs = importlib.import_module("contracts.specs")
    env = {k: getattr(specs, k) for k in dir(specs) if not k.startswith("__")}
    extra = dict(implies=implies, iff=iff, ite=ite, isnan=_isnan, isfinite=_isfinite, isinf=_isinf, close=close,
                 sqrt=_np1(np.sqrt), atan=_np1(np.arctan), sin=_np1(np.sin), cos=_np1(np.cos), asin=_np1(np.arcsin),
                 exp=_np1(np.exp), atan2=_atan2, pi=math.pi, floor=math.floor, array2=array2, array_eq=array_eq,
                 nanmean=_nanred(np.nanmean), nansum=_nanred(np.nansum), nanmin=_nanred(np.nanmin), nanmax=_nanred(np.nanmax),
                 nanstd=_nanred(np.nanstd), nanvar=_nanred(np.nanvar), inf=float("inf"), valid_values=valid_values)
    # natively `same` (exact identity in the symbolic model) tolerates last-digit float rounding of re-associated formulas
    extra["same"] = lambda a, b: close(a, b, rel=1e-9, ab=1e-12)
    env.update(extra)
    env.update(np=np, math=math)
    for k, v in extra.items():
        setattr(specs, k, v)
    # spec functions look names up in their own module globals
    specs.isnan = _isnan
    specs.isfinite = _isfinite
    specs.isinf = _isinf
    specs.implies = implies
    specs.iff = iff
    specs.ite = ite
    return env


def eval_spec(src, env_new, env_old):
    tree = ast.parse(src, mode="eval")
    olds = {k for k, v in env_old.items() if isinstance(v, (np.ndarray, dict, list))}
    tree = _OldXform(olds).visit(tree)
    ast.fix_missing_locations(tree)
    env = dict(env_new)
    env["__old__"] = env_old
    return eval(compile(tree, "<spec>", "eval"), env)


# ----------------------------------------------------------------------------- value (de)serialisation
def dec(v):
    """JSON -> python/numpy"""
    if isinstance(v, dict) and "__arr__" in v:
        a = np.array([dec_f(x) for x in v["flat"]], dtype=v.get("dtype", "float64")).reshape(v["shape"])
        if v.get("order") == "F":
            a = np.asfortranarray(a)
        return a
    if isinstance(v, dict) and "__tuple__" in v:
        return tuple(dec(x) for x in v["__tuple__"])
    if isinstance(v, dict) and "__f__" in v:
        return dec_f(v["__f__"])
    return v


def dec_f(x):
    if isinstance(x, str):
        return {"nan": float("nan"), "inf": float("inf"), "-inf": float("-inf")}[x]
    return x


def enc_f(x):
    if isinstance(x, (float, np.floating)):
        x = float(x)
        if math.isnan(x):
            return "nan"
        if math.isinf(x):
            return "inf" if x > 0 else "-inf"
        return x
    if isinstance(x, (np.integer,)):
        return int(x)
    if isinstance(x, (np.bool_,)):
        return bool(x)
    return x


def enc(v):
    if isinstance(v, np.ndarray):
        return {"__arr__": 1, "shape": list(v.shape), "dtype": str(v.dtype), "flat": [enc_f(x) for x in v.ravel().tolist()]}
    if isinstance(v, (tuple, list)):
        return {"__tuple__": [enc(x) for x in v]}
    if isinstance(v, float) or isinstance(v, np.floating):
        return {"__f__": enc_f(v)}
    if isinstance(v, (np.integer,)):
        return int(v)
    if isinstance(v, (np.bool_,)):
        return bool(v)
    if callable(v):
        return "<callable>"
    if isinstance(v, dict):
        return {str(k): enc(x) for k, x in v.items()}
    return v


# ----------------------------------------------------------------------------- contract execution
def get_contract(key):
    from pyvc.contract import REGISTRY
    importlib.import_module("contracts.all")
    for c in REGISTRY.values():
        if c.key == key:
            return c
    raise KeyError(key)


def get_function(c):
    modname = c.module[:-3].replace("/", ".")
    mod = importlib.import_module(modname)
    nat = c.native or {}
    if "getter" in nat:
        gens = importlib.import_module("contracts.gens")
        return getattr(gens, nat["getter"])(mod)
    obj = mod
    for part in c.qualname.split("."):
        obj = getattr(obj, part)
    return obj


def run_case(c, fn, args, env0):
    """returns (status, clause, info): status in ok | skip (requires false) | fail | raised-ok"""
    names = list(c.params)
    old = {k: copy.deepcopy(v) for k, v in args.items()}
    env_old = dict(env0)
    env_old.update(old)
    for nm, e in c.lets:
        env_old[nm] = eval_spec(e, env_old, env_old)
    for k, r in enumerate(c.requires):
        try:
            if not eval_spec(r, env_old, env_old):
                return "skip", "requires%d" % k, None
        except Exception as e:
            return "skip", "requires%d raised %r" % (k, e), None
    call_args = [args[n] for n in names]
    nat = c.native or {}
    if nat.get("tuple_params"):
        for p in nat["tuple_params"]:
            i = names.index(p)
            call_args[i] = tuple(call_args[i].tolist())
    try:
        result = fn(*call_args)
    except Exception as e:
        exc = type(e).__name__
        cond = c.raises.get(exc)
        if cond is None:
            return "fail", "noraise:%s" % exc, {"exception": repr(e)}
        if eval_spec(cond, env_old, env_old):
            return "raised-ok", exc, None
        return "fail", "raises:%s" % exc, {"exception": repr(e), "allowed_when": cond}
    env_new = dict(env0)
    env_new.update(args)
    for nm, e in c.lets:
        env_new[nm] = env_old[nm]
    env_new["result"] = result
    # a listed exception condition that holds must have raised
    for exc, cond in c.raises.items():
        if nat.get("raises_iff", True) and eval_spec(cond, env_old, env_old):
            return "fail", "must-raise:%s" % exc, {"result": enc(result)}
    for k, e in enumerate(c.ensures):
        try:
            ok = eval_spec(e, env_new, env_old)
        except Exception as ex:
            return "fail", "post%d" % k, {"error evaluating ensures": repr(ex), "ensures": e, "result": enc(result)}
        if not ok:
            return "fail", "post%d" % k, {"ensures": e, "result": enc(result)}
    # frame: parameters not in `modifies` are unchanged
    for n in names:
        if n in c.modifies:
            continue
        a, b = old[n], args[n]
        if isinstance(a, np.ndarray):
            if not np.array_equal(a, b, equal_nan=(a.dtype.kind == "f")):
                return "fail", "frame:%s" % n, {"result": enc(result)}
    return "ok", None, None


# ----------------------------------------------------------------------------- generic input generation
FLOAT_POOL = [0.0, 1.0, 2.0, 3.0, -1.0, 0.5, float("nan"), float("inf"), float("-inf"), 7.0, -2.5, 0.125, 100.0]   # exactly representable in float32


def gen_value(ty, rng, opts):
    maxdim = opts.get("maxdim", 4)
    pool = opts.get("pool", FLOAT_POOL)
    if ty == "int":
        return rng.randint(opts.get("int_lo", -2), opts.get("int_hi", 6))
    if ty == "float":
        return rng.choice(pool) if rng.random() < 0.7 else rng.uniform(-5, 5)
    if ty == "bool":
        return rng.random() < 0.5
    if ty[0] in "fib" and ty[1:].isdigit():
        nd = int(ty[1:])
        shape = tuple(rng.randint(opts.get("mindim", 0), maxdim) for _ in range(nd))
        n = int(np.prod(shape)) if shape else 1
        if ty[0] == "f":
            k = rng.randint(1, len(pool))
            sub = pool[:k] if rng.random() < 0.5 else rng.sample(pool, k)
            flat = [rng.choice(sub) for _ in range(n)]
            return np.array(flat, dtype=opts.get("fdtype", "float64")).reshape(shape)
        if ty[0] == "i":
            return np.array([rng.randint(opts.get("int_lo", -2), opts.get("int_hi", 6)) for _ in range(n)], dtype="int64").reshape(shape)
        return np.array([rng.random() < 0.5 for _ in range(n)], dtype=bool).reshape(shape)
    raise ValueError(ty)


def fuzz(c, seed, n, budget_s):
    rng = random.Random(seed)
    fn = get_function(c)
    env0 = spec_env()
    nat = c.native or {}
    gen = None
    if "gen" in nat:
        gens = importlib.import_module("contracts.gens")
        gen = getattr(gens, nat["gen"])
    t0 = time.time()
    stats = {"evaluations": 0, "ok": 0, "skip": 0, "raised_ok": 0, "distinct": 0}
    seen = set()
    samples = []
    it = 0
    while it < n and time.time() - t0 < budget_s:
        it += 1
        if gen is not None:
            args = gen(rng, it, c)
            if args is None:
                break
        else:
            args = {nm: gen_value(ty, rng, nat.get("opts", {})) for nm, ty in c.params.items()}
        status, clause, info = run_case(c, fn, args, env0)
        stats["evaluations"] += 1
        if status == "skip":
            stats["skip"] += 1
            continue
        key = json.dumps({k: enc(v) for k, v in args.items()}, sort_keys=True, default=str)
        if key not in seen:
            seen.add(key)
            stats["distinct"] += 1
            if len(samples) < 3:
                samples.append(json.loads(key))
        if status == "fail":
            return {"status": "fail", "clause": clause, "info": info, "args": {k: enc(v) for k, v in args.items()},
                    "stats": stats, "samples": samples}
        stats["ok" if status == "ok" else "raised_ok"] += 1
    return {"status": "ok", "stats": stats, "samples": samples, "wall_s": time.time() - t0}


def main():
    job = json.load(sys.stdin)
    c = get_contract(job["contract"])
    if job["op"] == "replay":
        fn = get_function(c)
        args = {k: dec(v) for k, v in job["args"].items()}
        status, clause, info = run_case(c, fn, args, spec_env())
        out = {"status": status, "clause": clause, "info": info}
    elif job["op"] == "fuzz":
        out = fuzz(c, job.get("seed", 0), job.get("n", 1000), job.get("budget_s", 20))
    else:
        raise SystemExit("unknown op")
    sys.stdout.write("\n" + json.dumps(out, default=str) + "\n")


if __name__ == "__main__":
    main()
