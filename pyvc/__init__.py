"""pyvc - a small contract-based deductive verifier for the Python/Numba subset
used by xarray-spatial.  See /verif/DESIGN.md section 2.

The verified text is the real source: every run re-parses /repo/xrspatial/*.py,
locates the functions under contract by qualified name and generates
verification conditions from that AST.  Contracts are sidecar files in
/verif/contracts.
"""
import os

REPO = os.environ.get("PYVC_REPO", "/repo")
VERIF = os.path.dirname(os.path.dirname(os.path.abspath(__file__)))
VENV_PY = os.environ.get("PYVC_VENV_PY", "/venv/bin/python")
