"""Discharge obligations with z3 (python API) in a process pool; optional
re-discharge through SMT-LIB text with /usr/bin/cvc5 and /usr/bin/z3 4.8."""
import os
import subprocess
import tempfile
import time
import multiprocessing as mp
import z3

from . import xr


def obligation_smt2(o):
    s = z3.Solver()
    for h in o.hyps:
        s.add(h)
    for a in xr.axioms(o.axioms):
        s.add(a)
    s.add(z3.Not(o.goal))
    return s.to_smt2()


def _solve(args):
    smt2, timeout_ms, tactic = args
    t0 = time.time()
    try:
        ctx = z3.Context()
        s = z3.Solver(ctx=ctx)
        s.set("timeout", timeout_ms)
        s.from_string(smt2)
        r = s.check()
        res = str(r)
        reason = s.reason_unknown() if r == z3.unknown else ""
        if r == z3.unknown and tactic:
            # second attempt with a different configuration
            s2 = z3.Solver(ctx=ctx)
            s2.set("timeout", timeout_ms)
            s2.set("smt.mbqi", False)
            s2.from_string(smt2)
            r = s2.check()
            res = str(r)
            reason = s2.reason_unknown() if r == z3.unknown else ""
        return res, time.time() - t0, reason
    except Exception as e:       # pragma: no cover
        return "error", time.time() - t0, repr(e)


def discharge(obls, timeout_s=60, procs=None, retry=True):
    """sets o.status for every obligation; returns solver seconds"""
    procs = procs or min(16, os.cpu_count() or 4)
    jobs = []
    for o in obls:
        if z3.is_true(z3.simplify(o.goal)) and not o.expect_sat:
            o.status, o.backend, o.seconds = "proved", "trivial", 0.0
            continue
        jobs.append(o)
    if not jobs:
        return 0.0
    payload = [(obligation_smt2(o), int(timeout_s * 1000), retry) for o in jobs]
    if len(jobs) == 1 or procs == 1:
        results = [_solve(p) for p in payload]
    else:
        ctx = mp.get_context("fork")
        with ctx.Pool(min(procs, len(jobs))) as pool:
            results = pool.map(_solve, payload, chunksize=1)
    total = 0.0
    for o, (res, secs, reason) in zip(jobs, results):
        o.seconds = secs
        o.backend = "z3-%s" % z3.get_version_string()
        total += secs
        if o.expect_sat:
            o.status = "proved" if res == "sat" else ("failed" if res == "unsat" else "unknown")
            o.detail = "reachability: solver says %s %s" % (res, reason)
        else:
            o.status = "proved" if res == "unsat" else ("failed" if res == "sat" else "unknown")
            o.detail = "solver says %s %s" % (res, reason)
    return total


def model_for(o, timeout_s=60, bounds=None):
    """re-solve a failed obligation in-process and return (solver, model) or None"""
    s = z3.Solver()
    s.set("timeout", int(timeout_s * 1000))
    for h in o.hyps:
        s.add(h)
    for a in xr.axioms(o.axioms):
        s.add(a)
    s.add(z3.Not(o.goal))
    if bounds:
        s.push()
        for b in bounds:
            s.add(b)
        if s.check() == z3.sat:
            return s, s.model()
        s.pop()
    if s.check() == z3.sat:
        return s, s.model()
    return None


def cross_check(obls, timeout_s=60, solvers=("cvc5", "z3old"), procs=None):
    """re-discharge proved obligations with independent solvers through SMT-LIB text.
    returns dict solver -> {'agree': n, 'unknown': n, 'disagree': [oid]}"""
    out = {}
    jobs = [o for o in obls if o.status == "proved" and o.backend != "trivial" and not o.expect_sat]
    for sv in solvers:
        agree = unknown = 0
        disagree = []
        payload = [(obligation_smt2(o), sv, timeout_s) for o in jobs]
        ctx = mp.get_context("fork")
        with ctx.Pool(procs or min(16, os.cpu_count() or 4)) as pool:
            results = pool.map(_ext_solve, payload, chunksize=1)
        for o, r in zip(jobs, results):
            if r == "unsat":
                agree += 1
                o.backend += "+" + sv
            elif r == "sat":
                disagree.append(o.oid)
            else:
                unknown += 1
        out[sv] = {"agree": agree, "unknown": unknown, "disagree": disagree, "total": len(jobs)}
    return out


def _ext_solve(args):
    smt2, sv, timeout_s = args
    with tempfile.NamedTemporaryFile("w", suffix=".smt2", delete=False) as f:
        if sv == "cvc5":
            f.write("(set-logic ALL)\n")
        f.write(smt2)
        if "(check-sat)" not in smt2:
            f.write("\n(check-sat)\n")
        path = f.name
    try:
        if sv == "cvc5":
            cmd = ["/usr/bin/cvc5", "--tlimit=%d" % (timeout_s * 1000), path]
        else:
            cmd = ["/usr/bin/z3", "-T:%d" % timeout_s, path]
        try:
            p = subprocess.run(cmd, capture_output=True, text=True, timeout=timeout_s + 10)
            out = p.stdout.strip().splitlines()
            return out[0] if out else "unknown"
        except subprocess.TimeoutExpired:
            return "unknown"
    finally:
        os.unlink(path)
