"""Discharge obligations with z3 (python API) in a process pool; optional
re-discharge through SMT-LIB text with /usr/bin/cvc5 and /usr/bin/z3 4.8."""
import os
import subprocess
import tempfile
import time
import multiprocessing as mp
import z3

from . import xr


def _has_quantifier(f, seen=None):
    seen = set() if seen is None else seen
    todo = [f]
    while todo:
        t = todo.pop()
        if t.get_id() in seen:
            continue
        seen.add(t.get_id())
        if z3.is_quantifier(t):
            return True
        todo.extend(t.children())
    return False


def _formulas(o, tier):
    if tier == "qf":
        # the quantifier-free part of the hypotheses only (sound: fewer hypotheses); settles arithmetic side conditions at once
        # instead of letting the solver instantiate the big invariants first
        return [h for h in o.hyps if not _has_quantifier(h)] + [z3.Not(o.goal)]
    fs = list(o.hyps)
    if not o.expect_sat:
        fs.extend((o.defs or {}).values())
    if tier >= 1:
        fs.extend(xr.axioms(o.axioms))
    fs.append(z3.Not(o.goal))
    if tier == 1:
        fs.extend(xr.op_axioms())
    elif tier == 2:
        fs = [xr.expand_ops(f) for f in fs]
    return fs


def obligation_smt2(o, tier=2):
    s = z3.Solver()
    for f in _formulas(o, tier):
        s.add(f)
    return s.to_smt2()


EM = {"smt.auto_config": False, "smt.mbqi": False}
# (tier, solver config, share of the time budget)
EM7 = {"smt.auto_config": False, "smt.mbqi": False, "smt.random_seed": 7}
# tier 0 (symbols uninterpreted) settles most obligations in well under a second; it gets a generous share so that a loaded
# machine does not push such an obligation into the (harder) tiers with definitions
PLAN = [(0, EM, 0.3), (1, EM, 0.25), (2, EM, 0.2), (2, {}, 0.15), (0, EM7, 0.1)]


_JOBS = []


class _LazySmt:
    def __init__(self, o):
        self.o = o
        self.cache = {}

    def __getitem__(self, tier):
        if self.o.expect_sat and tier != 0:
            return None
        if tier not in self.cache:
            self.cache[tier] = obligation_smt2(self.o, tier)
        return self.cache[tier]


def _solve_job(i):
    o, timeout_ms = _JOBS[i]
    try:
        return _solve((_LazySmt(o), timeout_ms, o.expect_sat, getattr(o, "hint", None)))
    except Exception as e:       # pragma: no cover
        return "error", 0.0, repr(e)


def _solve(args):
    smts, timeout_ms, expect_sat = args[:3]
    hint = args[3] if len(args) > 3 else None
    t0 = time.time()
    try:
        ctx = z3.Context()
        last = ("unknown", "")
        tried_cvc5 = False
        plan = [(0, {}, 0.5), (0, EM, 0.5)] if expect_sat else PLAN
        if hint is not None and not expect_sat:
            # ordering hint from the committed ledger (the tier that discharged this obligation last time): try it first
            # ("2d" = tier 2 with the solver's default configuration)
            if hint == "q":
                first = []
            elif hint == "2d":
                first = [p for p in plan if p[0] == 2 and not p[1]]
            else:
                first = [p for p in plan if p[0] == hint]
            plan = first + [p for p in plan if p not in first]
        if not expect_sat and hint == "cq":
            # cvc5 on the quantifier-free part discharged it last time
            rr = _cvc5({"qf": smts["qf"]}, "qf", max(10, timeout_ms // 4000))
            if rr is not None:
                return "unsat", time.time() - t0, "[cvc5/qf]"
            hint = None
        if not expect_sat and isinstance(hint, str) and hint.startswith("c"):
            # the ledger says cvc5 discharged this one last time (typically nonlinear integer arithmetic): ask it first
            r = _cvc5(smts, int(hint[1:]), max(10, timeout_ms // 4000))
            if r is not None:
                return "unsat", time.time() - t0, r
        if not expect_sat and hint == "q":
            # the ledger says the quantifier-free hypotheses were enough last time: give that attempt most of the budget
            plan = [("qf", {}, 0.4)] + list(plan)
        elif not expect_sat and hint is None:
            # without the needed hypotheses a quantifier-free query is normally `sat` at once; only hard arithmetic uses the budget
            plan = [("qf", {}, 0.15)] + list(plan)
        for tier, cfg, share in plan:
            if smts[tier] is None:
                continue
            s = z3.Solver(ctx=ctx)
            s.set("timeout", max(1000, int(timeout_ms * share)))
            for k, v in cfg.items():
                s.set(k, v)
            s.from_string(smts[tier])
            r = s.check()
            if r == z3.unsat:
                if tier == "qf":
                    return "unsat", time.time() - t0, "[tier0/qf]"
                return "unsat", time.time() - t0, "[tier%d%s]" % (tier, "" if cfg else "/default")
            if tier == "qf":
                if r == z3.unknown:
                    # quantifier-free but beyond z3 in the time given (nonlinear integer arithmetic): cvc5 on the same small text
                    rr = _cvc5({"qf": smts["qf"]}, "qf", max(5, timeout_ms // 8000))
                    if rr is not None:
                        return "unsat", time.time() - t0, "[cvc5/qf]"
                continue
            if r == z3.sat and (tier == 2 or expect_sat):
                # a model is meaningful only with the full definitions (or for reachability checks)
                return "sat", time.time() - t0, "[tier%d]" % tier
            last = ("unknown", "%s at tier %s" % (s.reason_unknown() if r == z3.unknown else "sat without definitions", tier))
            if tier == 0 and not expect_sat and not tried_cvc5:
                # z3 without definitions gave up: before the heavier tiers, give cvc5 a short go at the same text - it is much
                # stronger on nonlinear integer arithmetic (row / column arithmetic with symbolic widths)
                tried_cvc5 = True
                rr = _cvc5(smts, 0, max(5, timeout_ms // 8000))
                if rr is not None:
                    return "unsat", time.time() - t0, rr
        if not expect_sat and not tried_cvc5 and not (isinstance(hint, str) and hint.startswith("c")):
            # second back end: cvc5 on the same SMT-LIB text (tier 0, then tier 2); only `unsat` is taken from it
            for tier in (0, 2):
                r = _cvc5(smts, tier, max(10, timeout_ms // 6000))
                if r is not None:
                    return "unsat", time.time() - t0, r
        return last[0], time.time() - t0, last[1]
    except Exception as e:       # pragma: no cover
        return "error", time.time() - t0, repr(e)


def _cvc5(smts, tier, timeout_s):
    try:
        txt = smts[tier]
    except Exception:
        return None
    if txt is None or not os.path.exists("/usr/bin/cvc5"):
        return None
    if _ext_solve((txt, "cvc5", timeout_s)) == "unsat":
        return "[cvc5/tier%s]" % tier
    return None


def discharge(obls, timeout_s=60, procs=None, retry=True):
    """sets o.status for every obligation; returns solver seconds"""
    procs = procs or min(16, os.cpu_count() or 4)
    jobs = []
    for o in obls:
        if z3.is_true(z3.simplify(o.goal)) and not o.expect_sat:
            o.status, o.backend, o.seconds = "proved", "trivial", 0.0
            continue
        jobs.append(o)
    if not jobs:
        return 0.0
    # the SMT-LIB text of an obligation is produced in the worker (forked: it sees the parent's terms), and only for the
    # tiers that are actually tried - serialising three tiers of every obligation in the parent dominated the run time
    global _JOBS
    _JOBS = [(o, int((timeout_s if o.expect_sat else getattr(o, "timeout", timeout_s)) * 1000)) for o in jobs]
    if len(jobs) == 1 or procs == 1:
        results = [_solve_job(i) for i in range(len(jobs))]
    else:
        ctx = mp.get_context("fork")
        with ctx.Pool(min(procs, len(jobs))) as pool:
            results = pool.map(_solve_job, range(len(jobs)), chunksize=1)
    _JOBS = []
    total = 0.0
    for o, (res, secs, reason) in zip(jobs, results):
        o.seconds = secs
        o.backend = "cvc5-1.0.3" if "[cvc5/" in (reason or "") else "z3-%s" % z3.get_version_string()
        total += secs
        if res == "error":
            o.status = "error"
            o.detail = "solver error: %s" % reason
            continue
        if o.expect_sat:
            o.status = "proved" if res == "sat" else ("failed" if res == "unsat" else "unknown")
            o.detail = "reachability: solver says %s %s" % (res, reason)
        else:
            o.status = "proved" if res == "unsat" else ("failed" if res == "sat" else "unknown")
            o.detail = "solver says %s %s" % (res, reason)
    return total


def model_for(o, timeout_s=60, bounds=None):
    """re-solve a failed obligation in-process and return (solver, model) or None"""
    s = z3.Solver()
    s.set("timeout", int(timeout_s * 1000))
    for f in _formulas(o, 2):
        s.add(f)
    if bounds:
        s.push()
        for b in bounds:
            s.add(b)
        if s.check() == z3.sat:
            return s, s.model()
        s.pop()
    if s.check() == z3.sat:
        return s, s.model()
    return None


def cross_check(obls, timeout_s=60, solvers=("cvc5", "z3old"), procs=None):
    """re-discharge proved obligations with independent solvers through SMT-LIB text.
    returns dict solver -> {'agree': n, 'unknown': n, 'disagree': [oid]}"""
    out = {}
    jobs = [o for o in obls if o.status == "proved" and o.backend != "trivial" and not o.expect_sat]
    for sv in solvers:
        agree = unknown = 0
        disagree = []
        payload = [(obligation_smt2(o), sv, timeout_s) for o in jobs]
        ctx = mp.get_context("fork")
        with ctx.Pool(procs or min(16, os.cpu_count() or 4)) as pool:
            results = pool.map(_ext_solve, payload, chunksize=1)
        for o, r in zip(jobs, results):
            if r == "unsat":
                agree += 1
                o.backend += "+" + sv
            elif r == "sat":
                disagree.append(o.oid)
            else:
                unknown += 1
        out[sv] = {"agree": agree, "unknown": unknown, "disagree": disagree, "total": len(jobs)}
    return out


def _ext_solve(args):
    smt2, sv, timeout_s = args
    with tempfile.NamedTemporaryFile("w", suffix=".smt2", delete=False) as f:
        if sv == "cvc5":
            f.write("(set-logic ALL)\n")
        f.write(smt2)
        if "(check-sat)" not in smt2:
            f.write("\n(check-sat)\n")
        path = f.name
    try:
        if sv == "cvc5":
            cmd = ["/usr/bin/cvc5", "--tlimit=%d" % (timeout_s * 1000), path]
        else:
            cmd = ["/usr/bin/z3", "-T:%d" % timeout_s, path]
        try:
            p = subprocess.run(cmd, capture_output=True, text=True, timeout=timeout_s + 10)
            out = p.stdout.strip().splitlines()
            return out[0] if out else "unknown"
        except subprocess.TimeoutExpired:
            return "unknown"
    finally:
        os.unlink(path)
