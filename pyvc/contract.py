"""Contract objects (sidecar).  Contracts are plain data: strings in the Python
expression subset that pyvc translates to SMT *and* that CPython evaluates
natively for replay / bounded stand-ins (single source, dual use)."""
import ast

REGISTRY = {}      # (module_relpath, qualname) -> Contract
LEMMAS = {}        # name -> Lemma


class LoopSpec:
    def __init__(self, kind, inv=(), post=None, decreases=None, index=None, var=None, unroll=None,
                 modifies_extra=(), cut=(), assume=()):
        self.assume = list(assume)  # [(fact, reason)]: facts taken on trust at the loop head; reported as assumptions, never counted
        self.cut = list(cut)        # assertions proved at the end of every iteration, then assumed (proof hints)
        self.kind = kind            # 'for' | 'while'
        self.inv = list(inv)
        self.post = list(post) if post is not None else None
        self.decreases = decreases
        self.index = index          # name bound to the hidden element index of `for e in arr`
        self.var = var
        self.unroll = unroll
        self.modifies_extra = tuple(modifies_extra)


class Contract:
    def __init__(self, module, qualname, params, requires=(), ensures=(), raises=None, modifies=(),
                 loops=None, lets=(), result=None, inline=False, axioms=(), props=(), neg_index=False,
                 ghost=None, closure=None, notes="", result_shape=None, types=None, pure=True,
                 native=None, assume_result=None, kind="tier1", options=None, ghost_params=None):
        self.options = dict(options or {})
        self.ghost_params = dict(ghost_params or {})
        self.module = module
        self.qualname = qualname
        self.params = dict(params)          # ordered name -> type string
        self.requires = list(requires)
        self.ensures = list(ensures)
        self.raises = dict(raises or {})    # ExcName -> condition (spec expr over entry state) under which it may be raised
        self.modifies = tuple(modifies)
        self.loops = dict(loops or {})
        self.lets = list(lets)              # [(name, expr)] evaluated on the entry state; usable in all specs
        self.result = result                # type of result: 'int' | 'float' | 'f2' | ('int','int',...) | None
        self.result_shape = result_shape    # expr giving result shape tuple for modular calls
        self.inline = inline
        self.axioms = tuple(axioms)
        self.props = tuple(props)           # property ids this contract serves
        self.neg_index = neg_index
        self.ghost = dict(ghost or {})
        self.closure = dict(closure or {})  # captured variables of nested functions: name -> type
        self.notes = notes
        self.types = dict(types or {})      # declared types of locals where inference needs help
        self.native = native                # dict of options for native (replay / bounded) execution
        self.kind = kind
        for s in self.requires + self.ensures + [e for _, e in self.lets]:
            ast.parse(s, mode="eval")
        REGISTRY[(module, qualname)] = self

    @property
    def key(self):
        return "%s:%s" % (self.module.replace("xrspatial/", "").replace(".py", ""), self.qualname)


class Lemma:
    """closed formula built by a python function using z3 directly over
    contract post-conditions / spec functions.  build() -> (hyps, goal)"""

    def __init__(self, name, build, props=(), axioms=(), timeout=120, notes=""):
        self.name = name
        self.build = build
        self.props = tuple(props)
        self.axioms = tuple(axioms)
        self.timeout = timeout
        self.notes = notes
        LEMMAS[name] = self
