"""C10 / C11 obligations discharged by the static frame / ownership analysis (pyvc.frame)."""
import time

from . import frame


def _pkg():
    return frame.Package().analyse()


def frame_items(pid, tier):
    from .check import Item
    import contracts.frames as cf
    t0 = time.time()
    pkg = _pkg()
    secs = time.time() - t0
    items = []
    BE = "pyvc.frame (static may-alias / modification analysis over the real AST)"
    byk = {f.key: f for f in pkg.fns.values()}

    def add(iid, ok, detail="", desc="", line=None):
        items.append(Item(iid, "proved", "ok" if ok else "failed", secs / 50.0, detail, BE, line, desc))

    if pid == "C10":
        for key, decl in sorted(cf.PUBLIC.items()):
            f = byk.get(key)
            if f is None:
                add("frame:%s:frame-ok:exists" % key, False, "public function not found")
                continue
            allowed = decl.get("modifies", set())
            bad = {p: v for p, v in f.mods.items() if p not in allowed}
            add("frame:%s:frame-ok:modifies" % key, not bad,
                "; ".join("parameter %s may be written at line %d (%s)" % (p, v[0][0], v[0][1]) for p, v in bad.items()),
                "writes no parameter except %s" % (sorted(allowed) or "none"), f.node.lineno)
            views = decl.get("views", set())
            badr = {p for p in f.ret_alias if p not in views}
            add("frame:%s:frame-ok:fresh-result" % key, not badr,
                "result may alias parameter(s) %s" % sorted(badr) if badr else "",
                "result shares no memory with the inputs except %s" % (sorted(views) or "none"), f.node.lineno)
        for f in pkg.fns.values():
            for ln, what in f.benign:
                ok = f.key in cf.BENIGN_ALLOWED
                add("frame:%s:frame-ok:value-preserving-store@%s" % (f.key, what.split("=")[0].strip()), ok,
                    "" if ok else "re-wrapping store not among the declared ones: %s" % what, what, ln)
    if pid == "C11":
        # (a)/(d) no function writes module state, a closure cell or a mutable default
        for f in sorted(pkg.fns.values(), key=lambda g: g.key):
            if f.is_cuda:
                continue
            add("frame:%s:frame-ok:no-shared-state-write" % f.key, not f.gwrites,
                "; ".join("line %d: %s" % g for g in f.gwrites[:4]),
                "no store to a module global, closure cell, function attribute or mutable default argument", f.node.lineno)
        # (b) module globals read by jitted code are bound exactly once
        for key, name, n in frame.jitted_global_reads(pkg):
            add("frame:%s:frame-ok:global-bound-once:%s" % (key, name), n == 1,
                "module-level name %s is bound %d times" % (name, n), "jitted code reads a module global that is bound exactly once")
        # (c)/(f) jit decorators
        for key, ln, txt, prob in frame.jit_decorator_facts(pkg):
            add("frame:%s:frame-ok:jit-options@%s" % (key, txt.split("(")[0]), prob is None,
                "decorator %s sets %s" % (txt, prob) if prob else "", "no cache=True / parallel=True on %s" % txt, ln)
        f = byk.get("proximity:_process._process_numpy")
        add("frame:proximity:_process:frame-ok:closure-created-per-call", f is not None and f.jitted and f.parent is not None,
            "" if f is not None else "nested jitted closure _process_numpy not found inside _process",
            "the jitted closure capturing target_values/max_distance/metric/mode is created inside _process on every call")
        # (e) RNG
        for key, ln, c, ok in frame.rng_facts(pkg):
            if key.startswith("bump:"):
                continue
            add("frame:%s:frame-ok:rng-seeded@%s" % (key, c.rsplit(".", 1)[1]), ok,
                "" if ok else "line %d: %s draws from the global RNG without a dominating np.random.seed(...)" % (ln, c),
                "every draw from NumPy's global RNG is dominated by np.random.seed(f(args)) in the same function", ln)
    return items
