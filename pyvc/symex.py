"""Forward symbolic executor / VC generator over the real Python AST.

DESIGN.md 2.2-2.4.  One obligation per (function, kind, source line, path).
"""
import ast
import copy
import os
import z3

from . import xr, REPO
from .values import (V, VInt, VBool, VFloat, VNone, VOpt, VStr, VTuple, VRef, VFunc, VModule, VDType, VOpaque,
                     ArrData, const_array, fresh_array, fresh_scalar, fresh_name, arr_sort, ELEM_SORT)
from .contract import Contract, LoopSpec, REGISTRY


class Unsupported(Exception):
    def __init__(self, msg, node=None):
        self.lineno = getattr(node, "lineno", None)
        super().__init__("%s (line %s)" % (msg, self.lineno))


class ContractMismatch(Exception):
    pass


class Obligation:
    def __init__(self, fn, kind, label, lineno, hyps, goal, desc="", expect_sat=False, axioms=()):
        self.fn = fn
        self.kind = kind
        self.label = label
        self.lineno = lineno
        self.hyps = list(hyps)
        self.goal = goal
        self.desc = desc
        self.expect_sat = expect_sat      # reachability/vacuity checks: sat is the good outcome
        self.axioms = tuple(axioms)
        self.defs = {}                    # definitional axioms of opaque spec functions (shared dict of the executor)
        self.status = None                # 'proved' | 'failed' | 'unknown'
        self.backend = None
        self.seconds = 0.0
        self.detail = ""
        self.state = None                 # entry info for model concretisation

    @property
    def oid(self):
        return "%s:%s:%s" % (self.fn, self.kind, self.label)

    def __repr__(self):
        return "<Obl %s line %s %s>" % (self.oid, self.lineno, self.status)


# --------------------------------------------------------------------------- module loading

class ModuleInfo:
    def __init__(self, relpath):
        self.relpath = relpath
        self.path = os.path.join(REPO, relpath)
        with open(self.path) as f:
            self.src = f.read()
        self.tree = ast.parse(self.src)
        self.imports = {}      # local name -> canonical dotted name
        self.funcs = {}        # qualname -> FunctionDef
        self.globals = {}      # name -> ast value node of simple module-level assignments
        self._scan()

    def _scan(self):
        for node in self.tree.body:
            self._scan_import(node)
            if isinstance(node, ast.Try):
                for n in node.body:
                    self._scan_import(n)
            if isinstance(node, ast.Assign) and len(node.targets) == 1 and isinstance(node.targets[0], ast.Name):
                self.globals[node.targets[0].id] = node.value
        self._scan_funcs(self.tree.body, "")
        # classes whose body assigns integer literals (Enum-style constants): Class.NAME -> value
        self.enums = {}
        for node in self.tree.body:
            if isinstance(node, ast.ClassDef):
                vals = {}
                for b in node.body:
                    if isinstance(b, ast.Assign) and len(b.targets) == 1 and isinstance(b.targets[0], ast.Name):
                        try:
                            v = ast.literal_eval(b.value)
                        except Exception:
                            continue
                        if isinstance(v, int) and not isinstance(v, bool):
                            vals[b.targets[0].id] = v
                if vals:
                    self.enums[node.name] = vals

    def _scan_import(self, node):
        if isinstance(node, ast.Import):
            for a in node.names:
                self.imports[a.asname or a.name.split(".")[0]] = a.name if a.asname else a.name.split(".")[0]
        elif isinstance(node, ast.ImportFrom):
            for a in node.names:
                self.imports[a.asname or a.name] = "%s.%s" % (node.module, a.name)

    def _scan_funcs(self, body, prefix):
        for node in body:
            if isinstance(node, (ast.FunctionDef,)):
                q = prefix + node.name
                self.funcs[q] = node
                self._scan_funcs(node.body, q + ".")
            elif isinstance(node, ast.ClassDef):
                self._scan_funcs(node.body, prefix + node.name + ".")
            elif isinstance(node, (ast.If, ast.Try, ast.With, ast.For, ast.While)):
                for fld in ("body", "orelse", "finalbody"):
                    self._scan_funcs(getattr(node, fld, []) or [], prefix)


_MODULES = {}


def load_module(relpath):
    if relpath not in _MODULES:
        _MODULES[relpath] = ModuleInfo(relpath)
    return _MODULES[relpath]


def reset_modules():
    _MODULES.clear()


def loops_in(fnode):
    """loops of a function in source (pre-)order, not descending into nested defs"""
    out = []

    def rec(stmts):
        for s in stmts:
            if isinstance(s, (ast.FunctionDef, ast.ClassDef)):
                continue
            if isinstance(s, (ast.For, ast.While)):
                out.append(s)
            for fld in ("body", "orelse", "finalbody"):
                sub = getattr(s, fld, None)
                if sub:
                    rec(sub)
            if isinstance(s, ast.Try):
                for h in s.handlers:
                    rec(h.body)
    rec(fnode.body)
    return out


def assigned_names(stmts):
    """names assigned and array names stored-into, syntactically, in a statement list"""
    names, stores, calls = set(), set(), []

    def tgt(t):
        if isinstance(t, ast.Name):
            names.add(t.id)
        elif isinstance(t, (ast.Tuple, ast.List)):
            for e in t.elts:
                tgt(e)
        elif isinstance(t, ast.Subscript):
            b = t.value
            while isinstance(b, ast.Subscript):
                b = b.value
            if isinstance(b, ast.Name):
                stores.add(b.id)
        elif isinstance(t, ast.Starred):
            tgt(t.value)

    class Vis(ast.NodeVisitor):
        def visit_FunctionDef(self, n):
            names.add(n.name)

        def visit_Assign(self, n):
            for t in n.targets:
                tgt(t)
            self.generic_visit(n)

        def visit_AugAssign(self, n):
            tgt(n.target)
            self.generic_visit(n)

        def visit_AnnAssign(self, n):
            tgt(n.target)
            self.generic_visit(n)

        def visit_For(self, n):
            tgt(n.target)
            self.generic_visit(n)

        def visit_Call(self, n):
            calls.append(n)
            self.generic_visit(n)

    v = Vis()
    for s in stmts:
        v.visit(s)
    return names, stores, calls


TRIG = z3.Function("pyvc_trig", z3.IntSort(), z3.BoolSort())


# --------------------------------------------------------------------------- state

class State:
    def __init__(self):
        self.env = {}
        self.heap = {}
        self.pc = []
        self.guards = []
        self.status = "run"      # run | return | break | continue | raise
        self.ret = None
        self.exc = None
        self.old_heap = None     # heap at function entry
        self.entry_env = None
        self.ghost_old = {}      # for loop-local old() snapshots
        self.loop_pre = {}       # loop ordinal -> state in which that loop was entered (for at_entry)

    def fork(self):
        s = State()
        s.env = dict(self.env)
        s.heap = dict(self.heap)
        s.pc = list(self.pc)
        s.guards = list(self.guards)
        s.status = self.status
        s.ret = self.ret
        s.exc = self.exc
        s.old_heap = self.old_heap
        s.entry_env = self.entry_env
        s.ghost_old = dict(self.ghost_old)
        s.loop_pre = dict(self.loop_pre)
        return s

    def hyps(self):
        return self.pc + self.guards

    def assume(self, f):
        if z3.is_true(f):
            return
        if self.guards:
            f = z3.Implies(z3.And(*self.guards), f)
        self.pc.append(f)


_cell_ctr = [0]


def new_cell(base="c"):
    _cell_ctr[0] += 1
    return "%s#%d" % (base, _cell_ctr[0])


# --------------------------------------------------------------------------- helpers

def to_bool(v, node=None):
    if isinstance(v, VBool):
        return v.t
    if isinstance(v, VInt):
        return v.t != 0
    if isinstance(v, VFloat):
        return z3.Not(z3.And(xr.is_fin(v.t), xr.val(v.t) == 0))
    if isinstance(v, VNone):
        return z3.BoolVal(False)
    if isinstance(v, VOpt):
        return z3.And(z3.Not(v.isnone), to_bool(v.inner, node))
    raise Unsupported("truth value of %r" % (v,), node)


def to_float(v, node=None):
    if isinstance(v, VFloat):
        return v.t
    if isinstance(v, VInt):
        t = z3.simplify(v.t)
        if z3.is_int_value(t):
            return xr.fin(z3.RealVal(t.as_long()))
        return xr.from_int(v.t)
    if isinstance(v, VBool):
        return xr.from_int(z3.If(v.t, 1, 0))
    raise Unsupported("float of %r" % (v,), node)


def to_int(v, node=None):
    if isinstance(v, VInt):
        return v.t
    if isinstance(v, VBool):
        return z3.If(v.t, z3.IntVal(1), z3.IntVal(0))
    raise Unsupported("int of %r" % (v,), node)


def is_num(v):
    return isinstance(v, (VInt, VFloat, VBool))


def merge_values(c, a, b):
    """If(c, a, b) on values; returns None when not mergeable"""
    if a is b:
        return a
    if isinstance(a, VInt) and isinstance(b, VInt):
        return VInt(z3.If(c, a.t, b.t))
    if isinstance(a, VBool) and isinstance(b, VBool):
        return VBool(z3.If(c, a.t, b.t))
    if is_num(a) and is_num(b):
        return VFloat(z3.If(c, to_float(a), to_float(b)))
    if isinstance(a, VRef) and isinstance(b, VRef):
        if a.cell == b.cell:
            return a
        return None
    if isinstance(a, VTuple) and isinstance(b, VTuple) and len(a.items) == len(b.items):
        items = [merge_values(c, x, y) for x, y in zip(a.items, b.items)]
        if any(i is None for i in items):
            return None
        return VTuple(items)
    if isinstance(a, VNone) and isinstance(b, VNone):
        return a
    if isinstance(a, (VNone, VOpt)) or isinstance(b, (VNone, VOpt)):
        # None on one side, a number on the other: an optional number
        def lift(x, other):
            if isinstance(x, VOpt):
                return x
            if isinstance(x, VNone):
                o = other.inner if isinstance(other, VOpt) else other
                if not is_num(o):
                    return None
                z = VFloat(xr.fin(z3.RealVal(0))) if isinstance(o, VFloat) else (VBool(False) if isinstance(o, VBool) else VInt(0))
                return VOpt(z3.BoolVal(True), z)
            if is_num(x):
                return VOpt(z3.BoolVal(False), x)
            return None
        la, lb = lift(a, b), lift(b, a)
        if la is None or lb is None:
            return None
        inner = merge_values(c, la.inner, lb.inner)
        if inner is None:
            return None
        return VOpt(z3.If(c, la.isnone, lb.isnone), inner)
    if isinstance(a, VStr) and isinstance(b, VStr) and a.s == b.s:
        return a
    if isinstance(a, (VFunc, VModule, VDType)) and type(a) is type(b) and a.name == b.name:
        return a
    return None


def merge_states(c, s1, s2, base_len):
    """merge two running states that forked from a common state with len(pc)==base_len"""
    m = s1.fork()
    m.pc = list(s1.pc[:base_len])
    for f in s1.pc[base_len:]:
        m.pc.append(z3.Implies(c, f))
    nc = z3.Not(c)
    for f in s2.pc[base_len:]:
        m.pc.append(z3.Implies(nc, f))
    env = {}
    for k in set(s1.env) | set(s2.env):
        if k in s1.env and k in s2.env:
            v = merge_values(c, s1.env[k], s2.env[k])
            if v is None:
                return None
            env[k] = v
        else:
            env[k] = s1.env.get(k, s2.env.get(k))
    m.env = env
    heap = {}
    for k in set(s1.heap) | set(s2.heap):
        if k in s1.heap and k in s2.heap:
            a, b = s1.heap[k], s2.heap[k]
            if a is b:
                heap[k] = a
            else:
                if a.et != b.et or a.ndim != b.ndim:
                    return None
                elems = a.elems if a.elems is b.elems else z3.If(c, a.elems, b.elems)
                shape = tuple(x if x is y else z3.If(c, x, y) for x, y in zip(a.shape, b.shape))
                heap[k] = ArrData(elems, shape, a.et, a.roots | b.roots, a.fresh and b.fresh)
        else:
            heap[k] = s1.heap.get(k, s2.heap.get(k))
    m.heap = heap
    return m


# --------------------------------------------------------------------------- executor

NP_FLOAT_DTYPES = {"float32", "float64", "f4", "f8", "float_", "float"}
NP_INT_DTYPES = {"int8", "int16", "int32", "int64", "uint8", "uint16", "uint32", "uint64", "i4", "i8", "int_", "int",
                 "intp", "uint"}
NP_BOOL_DTYPES = {"bool_", "bool", "bool8"}


OPAQUE_DEFS = {}
Fuel = z3.Datatype("Fuel")
Fuel.declare("FZ")
Fuel.declare("FS", ("pred", Fuel))
Fuel = Fuel.create()
FUEL2 = Fuel.FS(Fuel.FS(Fuel.FZ))


class Executor:
    defs = None

    def __init__(self, contract, specmod=None, probe=False):
        self.defs = {}
        self.c = contract
        self.mod = load_module(contract.module)
        self.fnode = self.mod.funcs.get(contract.qualname.split("@")[0])
        frag = getattr(contract, "options", {}).get("fragment")
        if frag and self.fnode is not None:
            # mechanical extraction of one top-level loop of the real function as a function of its free variables:
            # everything before and after the loop (argument validation, list building, reshape) is dropped
            kind, which = frag
            if kind == "if_prefix":
                # the straight-line prefix (up to the first loop) of the body of the `if` with the given test, as a function
                cands = [n for n in ast.walk(self.fnode) if isinstance(n, ast.If) and ast.unparse(n.test) == which]
                if len(cands) != 1:
                    raise ContractMismatch("fragment: %d if-statements with test `%s` in %s" % (len(cands), which, contract.key))
                body = []
                for n_ in cands[0].body:
                    if isinstance(n_, (ast.For, ast.While)):
                        break
                    body.append(n_)
                loop = ast.If(test=ast.Constant(value=True), body=body, orelse=[])
                ast.copy_location(loop, cands[0])
            else:
                tl = [n for n in self.fnode.body if isinstance(n, (ast.For, ast.While))]
                loop = tl[which]
            ret = ast.Return(value=ast.Name(id=getattr(contract, "options", {}).get("fragment_result", "out"), ctx=ast.Load()))
            f2 = ast.FunctionDef(name=self.fnode.name, args=ast.arguments(posonlyargs=[], args=[ast.arg(arg=a) for a in contract.params],
                                                                           kwonlyargs=[], kw_defaults=[], defaults=[]),
                                 body=[loop, ret], decorator_list=[], lineno=loop.lineno, col_offset=0)
            ast.fix_missing_locations(f2)
            f2.lineno = loop.lineno
            self.fnode = f2
        self.obls = []
        self.suppress = 0
        self.specmod = specmod          # python module object holding spec functions (for inlining their AST)
        self._spec_funcs = None
        self.loop_nodes = loops_in(self.fnode) if self.fnode is not None else []
        self.counter = {}
        self.notes = []
        self.used_axioms = set(contract.axioms)
        self.prune = True
        self.max_paths = 4000
        self.npaths = 0

    # ------------------------------------------------------------------ obligations
    def oblige(self, st, kind, label, goal, node=None, desc="", extra_hyps=()):
        if self.suppress:
            return
        if z3.is_true(goal):
            goal = z3.BoolVal(True)
        n = self.counter.get((kind, label), 0)
        self.counter[(kind, label)] = n + 1
        lab = label if n == 0 else "%s~%d" % (label, n)
        o = Obligation(self.c.key, kind, lab, getattr(node, "lineno", None), st.hyps() + list(extra_hyps), goal, desc,
                       axioms=tuple(sorted(self.used_axioms)))
        o.defs = self.defs
        self.obls.append(o)
        return o

    # ------------------------------------------------------------------ spec functions
    def spec_funcs(self):
        if self._spec_funcs is None:
            self._spec_funcs = {}
            if self.specmod is not None:
                import inspect
                src = inspect.getsource(self.specmod)
                tree = ast.parse(src)
                for n in tree.body:
                    if isinstance(n, ast.FunctionDef):
                        self._spec_funcs[n.name] = n
        return self._spec_funcs

    # ------------------------------------------------------------------ entry state
    def make_param(self, st, name, ty, zname=None):
        if zname is None and name in ("val", "fin", "nan", "pinf", "ninf", "F"):
            # the solver-level symbol must not clash with the float model's constructors / accessors
            env_name = name
            tmp = State()
            self.make_param(tmp, name + "_", ty)
            st.pc.extend(tmp.pc)
            for cell, a in tmp.heap.items():
                a.roots = frozenset({env_name}) if a.roots else a.roots
                st.heap["param:" + env_name] = a
            v = tmp.env[name + "_"]
            st.env[env_name] = VRef("param:" + env_name) if isinstance(v, VRef) else v
            return
        if ty == "int":
            st.env[name] = VInt(z3.Int(name))
        elif ty == "float":
            st.env[name] = VFloat(z3.Const(name, xr.F))
        elif ty == "bool":
            st.env[name] = VBool(z3.Bool(name))
        elif ty == "none":
            st.env[name] = VNone()
        elif ty.startswith("str:"):
            st.env[name] = VStr(ty[4:])
        elif ty == "func":
            st.env[name] = VFunc("param:" + name, handler=None)
        elif ty == "dict":
            st.env[name] = VOpaque(z3.Const(name, VOpaque.SORT))
        elif ty in ("Lf", "Li"):
            # python list of floats / ints: array + symbolic length
            cell = "param:" + name
            ln = z3.Int("%s.shape0" % name)
            st.pc.append(ln >= 0)
            st.heap[cell] = ArrData(z3.Const(name, arr_sort(ty[1], 1)), [ln], ty[1], roots={name})
            st.heap[cell].is_list = True
            st.env[name] = VRef(cell)
        elif ty[0] in "fib" and ty[1:].isdigit():
            et, nd = ty[0], int(ty[1:])
            cell = "param:" + name
            shape = [z3.Int("%s.shape%d" % (name, k)) for k in range(nd)]
            for s in shape:
                st.pc.append(s >= 0)
            st.heap[cell] = ArrData(z3.Const(name, arr_sort(et, nd)), shape, et, roots={name})
            st.env[name] = VRef(cell)
        elif ty.startswith("tuple:"):
            items = []
            for k, sub in enumerate(ty[6:].split(",")):
                tmp = State()
                self.make_param(tmp, "%s.%d" % (name, k), sub)
                st.pc.extend(tmp.pc)
                st.heap.update(tmp.heap)
                items.append(tmp.env["%s.%d" % (name, k)])
            st.env[name] = VTuple(items)
        else:
            raise Unsupported("param type %s" % ty)

    def entry_state(self):
        st = State()
        # module-level names usable inside the function
        for nm, ty in list(self.c.closure.items()) + list(self.c.params.items()) + list(getattr(self.c, "ghost_params", {}).items()):
            self.make_param(st, nm, ty)
        st.old_heap = dict(st.heap)
        st.entry_env = dict(st.env)
        for nm, e in self.c.lets:
            st.env[nm] = self.spec(e, st)
            st.entry_env[nm] = st.env[nm]
        return st

    # ------------------------------------------------------------------ spec expression evaluation
    def spec(self, src, st, extra=None):
        node = src if isinstance(src, ast.AST) else ast.parse(src, mode="eval").body
        s2 = st.fork()
        if extra:
            s2.env.update(extra)
        self.suppress += 1
        try:
            v = self.ev(node, s2, spec=True)
        finally:
            self.suppress -= 1
        # assumptions created while evaluating spec (e.g. fresh definitions) are kept
        for f in s2.pc[len(st.pc):]:
            st.pc.append(f)
        for k, hv in s2.heap.items():
            if k not in st.heap:
                st.heap[k] = hv
        return v

    def spec_bool(self, src, st, extra=None):
        return to_bool(self.spec(src, st, extra))

    # ------------------------------------------------------------------ name resolution
    def lookup(self, name, st, node=None, spec=False):
        if name in st.env:
            return st.env[name]
        if name == "True":
            return VBool(True)
        if name == "False":
            return VBool(False)
        if name == "None":
            return VNone()
        if spec and name in self.spec_funcs():
            return VFunc("spec:" + name)
        if spec and name in ("isnan", "isfinite", "isinf", "implies", "old", "len", "abs", "min", "max", "int",
                             "float", "sqrt", "iff", "ite", "all", "any", "range", "floor", "bool", "atan", "atan2", "sin", "cos",
                             "asin", "exp", "same", "close", "pi", "nan", "inf", "array_eq", "array2", "nanmean", "nansum",
                             "nanmin", "nanmax", "nanstd", "nanvar", "valid_values", "trig"):
            if name == "pi":
                self.used_axioms.add("pi")
                return VFloat(xr.fin(xr.PI))
            if name == "nan":
                return VFloat(xr.NAN)
            if name == "inf":
                return VFloat(xr.PINF)
            if name in ("same", "close") and name in self.spec_funcs():
                pass
            return VFunc("builtin:" + name)
        if name in getattr(self.mod, "enums", {}):
            return VModule("enum:" + name)
        if name in self.mod.imports:
            canon = self.mod.imports[name]
            return self.canon_value(canon)
        if name in self.mod.funcs:
            return VFunc("local:" + name)
        if name in self.mod.globals:
            g = self.mod.globals[name]
            try:
                lit = ast.literal_eval(g)
            except Exception:
                lit = None
            if isinstance(lit, bool):
                return VBool(lit)
            if isinstance(lit, int):
                return VInt(lit)
            if isinstance(lit, float):
                return VFloat(xr.const(lit))
            if isinstance(lit, str):
                return VStr(lit)
            # evaluate simple constant expressions (e.g. PI / 2)
            try:
                return self.ev(g, State(), spec=True)
            except Unsupported:
                pass
        if name in ("range", "len", "abs", "min", "max", "int", "float", "bool", "print", "isinstance", "enumerate",
                    "zip", "round", "tuple", "list", "sum", "ValueError", "TypeError", "ZeroDivisionError",
                    "Exception", "IndexError", "AssertionError", "NotImplementedError"):
            return VFunc("builtin:" + name)
        raise Unsupported("unknown name %s" % name, node)

    def canon_value(self, canon):
        if canon in ("numpy", "math", "numba", "dask.array", "xarray", "cupy"):
            return VModule(canon)
        if canon in ("math.pi", "numpy.pi"):
            self.used_axioms.add("pi")
            return VFloat(xr.fin(xr.PI))
        if canon in ("math.inf", "numpy.inf"):
            return VFloat(xr.PINF)
        if canon in ("math.nan", "numpy.nan"):
            return VFloat(xr.NAN)
        if canon.startswith("xrspatial."):
            # from xrspatial.utils import ngjit, ... / other kernels
            return VFunc("xr:" + canon)
        return VFunc("ext:" + canon)

    # ------------------------------------------------------------------ expressions
    def ev(self, n, st, spec=False):
        m = getattr(self, "ev_" + type(n).__name__, None)
        if m is None:
            raise Unsupported("expression %s" % type(n).__name__, n)
        return m(n, st, spec)

    def ev_Constant(self, n, st, spec):
        v = n.value
        if isinstance(v, bool):
            return VBool(v)
        if isinstance(v, int):
            return VInt(v)
        if isinstance(v, float):
            return VFloat(xr.const(v))
        if v is None:
            return VNone()
        if isinstance(v, str):
            return VStr(v)
        raise Unsupported("constant %r" % (v,), n)

    def ev_Name(self, n, st, spec):
        return self.lookup(n.id, st, n, spec)

    def ev_Tuple(self, n, st, spec):
        return VTuple([self.ev(e, st, spec) for e in n.elts])

    def ev_List(self, n, st, spec):
        return VTuple([self.ev(e, st, spec) for e in n.elts])

    def ev_UnaryOp(self, n, st, spec):
        v = self.ev(n.operand, st, spec)
        if isinstance(n.op, ast.Not):
            return VBool(z3.Not(to_bool(v, n)))
        if isinstance(n.op, ast.USub) and isinstance(v, VRef):
            et = st.heap[v.cell].et
            return self.amap(st, lambda x: VInt(-x.t) if isinstance(x, VInt) else VFloat(xr.neg(to_float(x))), [v], et, n, spec)
        if isinstance(n.op, ast.USub):
            if isinstance(v, VInt):
                return VInt(-v.t)
            if isinstance(v, VBool):
                return VInt(-to_int(v))
            return VFloat(xr.neg(to_float(v, n)))
        if isinstance(n.op, ast.UAdd):
            return v
        raise Unsupported("unary op", n)

    def ev_BoolOp(self, n, st, spec):
        vals = []
        pushed = 0
        try:
            for e in n.values:
                v = self.ev(e, st, spec)
                b = to_bool(v, e)
                vals.append(b)
                bs = z3.simplify(b)
                if (z3.is_true(bs) and isinstance(n.op, ast.Or)) or (z3.is_false(bs) and isinstance(n.op, ast.And)):
                    break       # Python does not evaluate the remaining operands
                # short circuit: later operands are evaluated only if ...
                st.guards.append(b if isinstance(n.op, ast.And) else z3.Not(b))
                pushed += 1
        finally:
            for _ in range(pushed):
                st.guards.pop()
        return VBool(z3.And(*vals) if isinstance(n.op, ast.And) else z3.Or(*vals))

    def ev_IfExp(self, n, st, spec):
        c = to_bool(self.ev(n.test, st, spec), n.test)
        st.guards.append(c)
        try:
            a = self.ev(n.body, st, spec)
        finally:
            st.guards.pop()
        st.guards.append(z3.Not(c))
        try:
            b = self.ev(n.orelse, st, spec)
        finally:
            st.guards.pop()
        if spec:
            a, b = self.unopt(a, st, n, spec), self.unopt(b, st, n, spec)
        v = merge_values(c, a, b)
        if v is None:
            raise Unsupported("conditional expression of incompatible values", n)
        return v

    def cmp(self, op, a, b, node):
        if isinstance(a, VTuple) and isinstance(b, VTuple) and isinstance(op, (ast.Eq, ast.NotEq)):
            if len(a.items) != len(b.items):
                r = z3.BoolVal(False)
            else:
                r = z3.And(*[self.cmp(ast.Eq(), x, y, node) for x, y in zip(a.items, b.items)]) if a.items else z3.BoolVal(True)
            return r if isinstance(op, ast.Eq) else z3.Not(r)
        if isinstance(op, (ast.Is, ast.IsNot, ast.Eq, ast.NotEq)) and (
                (isinstance(a, VOpt) and isinstance(b, VNone)) or (isinstance(a, VNone) and isinstance(b, VOpt))):
            r = a.isnone if isinstance(a, VOpt) else b.isnone
            return r if isinstance(op, (ast.Is, ast.Eq)) else z3.Not(r)
        if isinstance(op, (ast.Is, ast.IsNot)):
            if isinstance(a, VNone) or isinstance(b, VNone):
                r = z3.BoolVal(isinstance(a, VNone) and isinstance(b, VNone))
                return r if isinstance(op, ast.Is) else z3.Not(r)
            raise Unsupported("is", node)
        if isinstance(a, VStr) and isinstance(b, VStr):
            r = z3.BoolVal(a.s == b.s)
            return r if isinstance(op, ast.Eq) else z3.Not(r)
        if isinstance(a, VNone) or isinstance(b, VNone):
            r = z3.BoolVal(isinstance(a, VNone) and isinstance(b, VNone))
            if isinstance(op, ast.Eq):
                return r
            if isinstance(op, ast.NotEq):
                return z3.Not(r)
            if isinstance(op, (ast.Lt, ast.LtE, ast.Gt, ast.GtE)):
                return z3.BoolVal(False)        # in code this is a TypeError (ev_Compare); in specs it sits behind `x is None or`
        if isinstance(a, VOpaque) and isinstance(b, VOpaque):
            if isinstance(op, ast.Eq):
                return a.t == b.t
            if isinstance(op, ast.NotEq):
                return a.t != b.t
        if not (is_num(a) and is_num(b)):
            raise Unsupported("comparison of %r and %r" % (a, b), node)
        if isinstance(a, VFloat) or isinstance(b, VFloat):
            x, y = to_float(a), to_float(b)
            tbl = {ast.Lt: xr.lt, ast.LtE: xr.le, ast.Gt: xr.gt, ast.GtE: xr.ge, ast.Eq: xr.eq, ast.NotEq: xr.ne}
            return tbl[type(op)](x, y)
        if isinstance(a, VBool) and isinstance(b, VBool) and isinstance(op, (ast.Eq, ast.NotEq)):
            return a.t == b.t if isinstance(op, ast.Eq) else a.t != b.t
        x, y = to_int(a), to_int(b)
        if isinstance(op, ast.Lt):
            return x < y
        if isinstance(op, ast.LtE):
            return x <= y
        if isinstance(op, ast.Gt):
            return x > y
        if isinstance(op, ast.GtE):
            return x >= y
        if isinstance(op, ast.Eq):
            return x == y
        if isinstance(op, ast.NotEq):
            return x != y
        raise Unsupported("comparison op", node)

    def unopt(self, v, st, node, spec, other=None):
        """use of an optional number as a number: TypeError when it is None (comparisons with None itself excepted)"""
        if isinstance(v, VNone) and self.suppress and other is None:
            # probe pass over a branch that is infeasible with the pre-loop value: any number will do
            return fresh_scalar("probe_none", "f")
        if not isinstance(v, VOpt) or isinstance(other, VNone):
            return v
        if not spec:
            self.raise_if(st, v.isnone, "TypeError", node)
        return v.inner

    def ev_Compare(self, n, st, spec):
        left = self.ev(n.left, st, spec)
        if len(n.ops) == 1 and not isinstance(n.ops[0], (ast.In, ast.NotIn, ast.Is, ast.IsNot)):
            right0 = self.ev(n.comparators[0], st, spec)
            if isinstance(left, VRef) or isinstance(right0, VRef):
                op = n.ops[0]
                return self.amap(st, lambda x, y: VBool(self.cmp(op, x, y, n)), [left, right0], "b", n, spec)
        res = []
        pushed = 0
        try:
            for op, rn in zip(n.ops, n.comparators):
                if isinstance(op, (ast.In, ast.NotIn)):
                    right = self.ev(rn, st, spec)
                    r = self.contains(left, right, st, n)
                    r = r if isinstance(op, ast.In) else z3.Not(r)
                else:
                    right = self.ev(rn, st, spec)
                    if not spec and isinstance(op, (ast.Lt, ast.LtE, ast.Gt, ast.GtE)) and \
                            (isinstance(left, VNone) or isinstance(right, VNone)):
                        self.raise_if(st, z3.BoolVal(True), "TypeError", n)
                    r = self.cmp(op, self.unopt(left, st, n, spec, right), self.unopt(right, st, n, spec, left), n)
                res.append(r)
                st.guards.append(r)
                pushed += 1
                left = right
        finally:
            for _ in range(pushed):
                st.guards.pop()
        return VBool(res[0] if len(res) == 1 else z3.And(*res))

    def contains(self, x, coll, st, node):
        if isinstance(coll, VTuple):
            if not coll.items:
                return z3.BoolVal(False)
            return z3.Or(*[self.cmp(ast.Eq(), x, it, node) for it in coll.items])
        if isinstance(coll, VRef):
            a = st.heap[coll.cell]
            if a.ndim != 1:
                raise Unsupported("in on nd array", node)
            k = z3.Int(fresh_name("k"))
            elem = self.wrap_elem(a, a.select([k]))
            return z3.Exists([k], z3.And(k >= 0, k < a.shape[0], self.cmp(ast.Eq(), elem, x, node)))
        raise Unsupported("in", node)

    def arith(self, op, a, b, st, node, spec):
        a, b = self.unopt(a, st, node, spec), self.unopt(b, st, node, spec)
        if isinstance(a, VRef) or isinstance(b, VRef):
            return self.array_arith(op, a, b, st, node, spec)
        if isinstance(a, VTuple) and isinstance(b, VTuple) and isinstance(op, ast.Add):
            return VTuple(a.items + b.items)
        if not (is_num(a) and is_num(b)):
            raise Unsupported("arithmetic on %r, %r" % (a, b), node)
        fl = isinstance(a, VFloat) or isinstance(b, VFloat)
        if isinstance(op, ast.Add):
            return VFloat(xr.add(to_float(a), to_float(b))) if fl else VInt(to_int(a) + to_int(b))
        if isinstance(op, ast.Sub):
            return VFloat(xr.sub(to_float(a), to_float(b))) if fl else VInt(to_int(a) - to_int(b))
        if isinstance(op, ast.Mult):
            return VFloat(xr.mul(to_float(a), to_float(b))) if fl else VInt(to_int(a) * to_int(b))
        if isinstance(op, ast.Div):
            x, y = to_float(a), to_float(b)
            if not spec:
                # scalar Python / Numba (error_model='python') division by zero raises
                self.raise_if(st, z3.And(xr.is_fin(y), xr.val(y) == 0), "ZeroDivisionError", node)
            return VFloat(xr.div(x, y))
        if isinstance(op, (ast.FloorDiv, ast.Mod)):
            if fl:
                raise Unsupported("float // or %", node)
            x, y = to_int(a), to_int(b)
            if not spec:
                self.raise_if(st, y == 0, "ZeroDivisionError", node)
            ys = z3.simplify(y)
            if z3.is_int_value(ys) and ys.as_long() > 0:
                q = x / y
            else:
                q = z3.If(y > 0, x / y, (-x) / (-y))
            if isinstance(op, ast.FloorDiv):
                return VInt(q)
            # Python's % for a positive modulus is SMT-LIB mod (the solver's own mod reasoning works on this form)
            if z3.is_int_value(ys) and ys.as_long() > 0:
                return VInt(x % y)
            if self.known_positive(st, y):
                return VInt(x % y)
            return VInt(z3.If(y > 0, x % y, -((-x) % (-y))))
        if isinstance(op, ast.Pow):
            bs = z3.simplify(to_float(b))
            if fl or True:
                x = to_float(a)
                if z3.is_app(bs) and bs.decl().name() == "fin" and z3.is_rational_value(bs.arg(0)):
                    e = bs.arg(0)
                    if e.numerator_as_long() == 1 and e.denominator_as_long() == 2:
                        self.used_axioms.add("sqrt")
                        return VFloat(xr.sqrt(x))
                    if e.denominator_as_long() == 1 and 1 <= e.numerator_as_long() <= 4:
                        k = e.numerator_as_long()
                        if not fl:
                            t = to_int(a)
                            r = t
                            for _ in range(k - 1):
                                r = r * t
                            return VInt(r)
                        r = x
                        for _ in range(k - 1):
                            r = xr.mul(r, x)
                        return VFloat(r)
            raise Unsupported("general power", node)
        if isinstance(op, (ast.BitOr, ast.BitAnd, ast.BitXor)) and not fl:
            # bit operations on integers are uninterpreted functions of their operands (flags: only their own frame matters here)
            f = z3.Function("pyvc_" + type(op).__name__.lower(), z3.IntSort(), z3.IntSort(), z3.IntSort())
            return VInt(f(to_int(a), to_int(b)))
        raise Unsupported("binary op %s" % type(op).__name__, node)

    # ---- element-wise array expressions (Tier 2): arrays as lambda terms
    def amap(self, st, f, operands, et_out, node, spec=False):
        """element-wise map with NumPy broadcasting (trailing dimensions aligned; a dimension that is literally 1 is stretched)"""
        refs = [o for o in operands if isinstance(o, VRef)]
        datas = [st.heap[r.cell] for r in refs]
        nd = max(d.ndim for d in datas)

        def lit1(t):
            ts = z3.simplify(t)
            return z3.is_int_value(ts) and ts.as_long() == 1
        # result shape
        shape = []
        for k in range(nd):
            cands = []
            for d in datas:
                off = nd - d.ndim
                if k >= off:
                    cands.append(d.shape[k - off])
            non1 = [c for c in cands if not lit1(c)]
            if not non1:
                shape.append(z3.IntVal(1))
            else:
                shape.append(non1[0])
                for c in non1[1:]:
                    if not spec and not z3.eq(c, non1[0]):
                        self.oblige(st, "shape", self.line_tag(node), c == non1[0], node, desc="operands broadcast to the same shape")
        idx = [z3.Int("l!%d" % k) for k in range(nd)]       # canonical bound names: equal expressions give equal terms
        elems = []
        for o in operands:
            if isinstance(o, VRef):
                a = st.heap[o.cell]
                off = nd - a.ndim
                sub = [z3.IntVal(0) if lit1(a.shape[k]) else idx[k + off] for k in range(a.ndim)]
                elems.append(self.wrap_elem(a, a.select(sub)))
            else:
                elems.append(o)
        self.suppress += 1          # element-level exceptions do not occur in NumPy array arithmetic
        try:
            body = f(*elems)
        finally:
            self.suppress -= 1
        tmp = ArrData(None, shape, et_out)
        t = self.unwrap_elem(tmp, body, node)
        for k in reversed(range(nd)):
            t = z3.Lambda([idx[k]], t)
        cell = new_cell("amap")
        st.heap[cell] = ArrData(t, shape, et_out, frozenset(), True)
        return VRef(cell)

    def array_arith(self, op, a, b, st, node, spec):
        def f(x, y):
            if isinstance(op, (ast.BitAnd, ast.BitOr)) and isinstance(x, VBool) and isinstance(y, VBool):
                return VBool(z3.And(x.t, y.t) if isinstance(op, ast.BitAnd) else z3.Or(x.t, y.t))
            if isinstance(op, ast.Div):
                return VFloat(xr.div(to_float(x), to_float(y)))      # NumPy: IEEE, no exception
            if isinstance(op, ast.Pow) and isinstance(x, VFloat):
                return self.arith(op, x, y, st, node, True)
            return self.arith(op, x, y, st, node, True)
        ets = [st.heap[v.cell].et for v in (a, b) if isinstance(v, VRef)]
        scal = [v for v in (a, b) if not isinstance(v, VRef)]
        if isinstance(op, (ast.BitAnd, ast.BitOr)):
            return self.amap(st, f, [a, b], "b", node, spec)
        et = "f" if ("f" in ets or isinstance(op, ast.Div) or any(isinstance(v, VFloat) for v in scal)) else ets[0]
        return self.amap(st, f, [a, b], et, node, spec)

    def raise_if(self, st, cond, exc, node):
        """the current path raises `exc` when cond holds.  With a raises-clause the
        obligation is that cond implies the permitted condition; afterwards execution
        continues under not cond."""
        if self.suppress:
            return
        c = z3.simplify(cond)
        if z3.is_false(c):
            return
        allowed = self.c.raises.get(exc)
        if allowed is None:
            self.oblige(st, "noraise", "%s@%s" % (exc, self.line_tag(node)), z3.Not(cond), node,
                        desc="%s must not be raised" % exc)
        else:
            a = self.spec_bool(allowed, self.entry_view(st))
            self.oblige(st, "raises", "%s@%s" % (exc, self.line_tag(node)), z3.Implies(cond, a), node,
                        desc="%s raised only when %s" % (exc, allowed))
        st.assume(z3.Not(cond))

    def entry_view(self, st):
        v = st.fork()
        v.env = dict(st.entry_env)
        v.heap = dict(st.old_heap)
        v.guards = []
        return v

    def line_tag(self, node):
        # ordinal tags are computed relative to the function start so that edits elsewhere in the file do not rename obligations
        ln = getattr(node, "lineno", 0)
        return "L%d" % (ln - self.fnode.lineno if self.fnode is not None else ln)

    def ev_BinOp(self, n, st, spec):
        a = self.ev(n.left, st, spec)
        b = self.ev(n.right, st, spec)
        return self.arith(n.op, a, b, st, n, spec)

    # ---- arrays
    def wrap_elem(self, a, t):
        return {"f": VFloat, "i": VInt, "b": VBool}[a.et](t)

    def unwrap_elem(self, a, v, node=None):
        if a.et == "f":
            return to_float(v, node)
        if a.et == "i":
            if isinstance(v, VFloat):
                # store of float into int array: truncation; only integral finite values are supported
                raise Unsupported("float stored into int array", node)
            return to_int(v, node)
        if a.et == "b":
            return to_bool(v, node)

    def index_terms(self, a, idx_vals, st, node, spec, what="index"):
        """bounds obligations + normalised index terms"""
        out = []
        for k, iv in enumerate(idx_vals):
            i = to_int(iv, node)
            n = a.shape[k]
            isimp = z3.simplify(i)
            if z3.is_int_value(isimp) and isimp.as_long() < 0:
                if not spec:
                    self.oblige(st, "index", "%s.%d" % (self.line_tag(node), k), -i <= n, node,
                                desc="negative literal index within bounds")
                out.append(n + i)
                continue
            if not spec:
                if self.c.neg_index:
                    self.oblige(st, "index", "%s.%d" % (self.line_tag(node), k), z3.And(i >= -n, i < n), node,
                                desc="index in [-len, len)")
                else:
                    self.oblige(st, "index", "%s.%d" % (self.line_tag(node), k), z3.And(i >= 0, i < n), node,
                                desc="index in [0, len)")
            if self.c.neg_index:
                out.append(z3.If(i < 0, i + n, i))
            else:
                out.append(i)
        return out

    def ev_Subscript(self, n, st, spec):
        base = self.ev(n.value, st, spec)
        sl = n.slice
        if isinstance(base, VTuple):
            iv = self.ev(sl, st, spec)
            t = z3.simplify(to_int(iv, n))
            if z3.is_int_value(t):
                return base.items[t.as_long()]
            # symbolic index into a homogeneous tuple
            res = base.items[-1]
            for k in range(len(base.items) - 2, -1, -1):
                res = merge_values(to_int(iv) == k, base.items[k], res)
            return res
        if isinstance(base, VRef):
            a = st.heap[base.cell]
            idx_nodes = sl.elts if isinstance(sl, ast.Tuple) else [sl]
            if any(isinstance(e, ast.Slice) or (isinstance(e, ast.Constant) and e.value is None) for e in idx_nodes):
                return self.slice_read(base, a, idx_nodes, st, n, spec)
            idx_vals = [self.ev(e, st, spec) for e in idx_nodes]
            if len(idx_vals) == 1 and isinstance(idx_vals[0], VRef) and st.heap[idx_vals[0].cell].et == "b":
                return self.mask_index(base, idx_vals[0], st, n, spec)
            if len(idx_vals) == 1 and isinstance(idx_vals[0], VTuple):
                idx_vals = idx_vals[0].items
            if len(idx_vals) < a.ndim:
                # row read: a[i] of a 2-D array -> fresh cell aliasing (read-only use supported)
                idx = self.index_terms(a, idx_vals, st, n, spec)
                sub = ArrData(a.select(idx), a.shape[len(idx):], a.et, a.roots, False)
                cell = new_cell("view")
                st.heap[cell] = sub
                st.env.setdefault("__views__", VTuple([]))
                return VRef(cell)
            if len(idx_vals) != a.ndim:
                raise Unsupported("index arity", n)
            idx = self.index_terms(a, idx_vals, st, n, spec)
            return self.wrap_elem(a, a.select(idx))
        if isinstance(base, VOpaque) and isinstance(self.ev(sl, st, spec), VStr):
            # entry of a dispatch table (a dict parameter) selected by a string that is constant here: an unknown but fixed function
            return VFunc("param:%s_entry" % base.t)
        raise Unsupported("subscript of %r" % (base,), n)

    def mask_index(self, base, mask, st, n, spec):
        """a[mask] for 1-D a and boolean mask: assumed NumPy contract - the result is a function of (mask, a) only,
        with 0 <= len <= len(a); which elements survive is not modelled (uninterpreted)."""
        a, m = st.heap[base.cell], st.heap[mask.cell]
        if a.ndim != 1 or m.ndim != 1:
            raise Unsupported("boolean-mask indexing of non 1-D arrays", n)
        if not spec and not z3.eq(a.shape[0], m.shape[0]):
            self.oblige(st, "shape", self.line_tag(n), a.shape[0] == m.shape[0], n, desc="mask has the array's length")
        ra, rm = self.restrict(a), self.restrict(m)
        f_el = z3.Function("np_compress_%s" % a.et, rm.sort(), ra.sort(), z3.IntSort(), arr_sort(a.et, 1))
        f_len = z3.Function("np_compress_len_%s" % a.et, rm.sort(), ra.sort(), z3.IntSort(), z3.IntSort())
        ln = f_len(rm, ra, a.shape[0])
        st.assume(z3.And(ln >= 0, ln <= a.shape[0]))
        cell = new_cell("masked")
        st.heap[cell] = ArrData(f_el(rm, ra, a.shape[0]), [ln], a.et, frozenset(), True)
        self.notes.append("assumed: a[mask] is a function of (mask, a), 0 <= len <= len(a)")
        return VRef(cell)

    def valid_values(self, arr, nodata, st, n, spec):
        """spec builtin: arr[isfinite(arr) & (arr != nodata)] - built exactly like the code path builds it"""
        fin = self.amap(st, lambda x: VBool(xr.is_fin(to_float(x))), [arr], "b", n, True)
        ne = self.amap(st, lambda x, y: VBool(self.cmp(ast.NotEq(), x, y, n)), [arr, nodata], "b", n, True)
        both = self.amap(st, lambda x, y: VBool(z3.And(to_bool(x), to_bool(y))), [fin, ne], "b", n, True)
        return self.mask_index(arr, both, st, n, True)

    def slice_read(self, base, a, idx_nodes, st, n, spec):
        """basic slices a[lo:hi, ...] (step 1) and integer indices: a view as a lambda array.
        Obligation: 0 <= lo <= hi <= dim (so Python's clamping never applies)."""
        n_new = sum(1 for e in idx_nodes if isinstance(e, ast.Constant) and e.value is None)
        if len(idx_nodes) - n_new != a.ndim:
            raise Unsupported("slice arity", n)
        bound = []
        index = []
        shape = []
        k = -1
        for e in idx_nodes:
            if isinstance(e, ast.Constant) and e.value is None:
                v = z3.Int("sl!%d" % len(bound))        # np.newaxis: a dimension of length 1
                bound.append(v)
                shape.append(z3.IntVal(1))
                continue
            k += 1
            dim = a.shape[k]
            if isinstance(e, ast.Slice):
                if e.step is not None:
                    raise Unsupported("slice step", n)
                lo = to_int(self.ev(e.lower, st, spec), n) if e.lower is not None else z3.IntVal(0)
                hi = to_int(self.ev(e.upper, st, spec), n) if e.upper is not None else dim
                if not spec:
                    self.oblige(st, "index", "%s.slice%d" % (self.line_tag(n), k), z3.And(0 <= lo, lo <= hi, hi <= dim), n,
                                desc="slice bounds within the array (no clamping)")
                v = z3.Int("sl!%d" % len(bound))
                bound.append(v)
                index.append(lo + v)
                shape.append(hi - lo)
            else:
                iv = self.ev(e, st, spec)
                index.extend(self.index_terms(a, [iv], st, n, spec))
        t = a.select(index)
        for v in reversed(bound):
            t = z3.Lambda([v], t)
        cell = new_cell("slice")
        st.heap[cell] = ArrData(t, shape, a.et, a.roots, False)
        return VRef(cell)

    def ev_Attribute(self, n, st, spec):
        # dotted module attribute?
        base = self.ev(n.value, st, spec)
        if isinstance(base, VModule):
            return self.module_attr(base, n.attr, n)
        if isinstance(base, VRef):
            a = st.heap[base.cell]
            if n.attr == "shape":
                return VTuple([VInt(s) for s in a.shape])
            if n.attr == "size":
                t = a.shape[0]
                for s in a.shape[1:]:
                    t = t * s
                return VInt(t)
            if n.attr == "ndim":
                return VInt(a.ndim)
            if n.attr == "dtype":
                return VDType(a.et)
            if n.attr == "T" and a.ndim == 1:
                return base
            return VFunc("method:" + n.attr, bound={"self": base})
        if isinstance(base, VFloat) or isinstance(base, VInt):
            return VFunc("method:" + n.attr, bound={"self": base})
        raise Unsupported("attribute %s of %r" % (n.attr, base), n)

    def module_attr(self, mod, attr, node):
        if mod.name.startswith("enum:"):
            vals = self.mod.enums[mod.name[5:]]
            if attr not in vals:
                raise Unsupported("%s.%s" % (mod.name[5:], attr), node)
            # members of one Enum class are only compared with each other: their (distinct) integer values stand for them
            return VInt(vals[attr])
        if mod.name.startswith("iinfo:"):
            lim = {"uint32": (0, 2 ** 32 - 1), "uint8": (0, 255), "int32": (-2 ** 31, 2 ** 31 - 1), "int64": (-2 ** 63, 2 ** 63 - 1),
                   "uint64": (0, 2 ** 64 - 1)}.get(mod.name[6:])
            if lim is None or attr not in ("min", "max"):
                raise Unsupported("np.iinfo(%s).%s" % (mod.name[6:], attr), node)
            return VInt(lim[0] if attr == "min" else lim[1])
        full = mod.name + "." + attr
        if mod.name in ("numpy", "math", "cupy"):
            if attr in ("nan", "NaN", "NAN"):
                return VFloat(xr.NAN)
            if attr == "inf":
                return VFloat(xr.PINF)
            if attr == "pi":
                self.used_axioms.add("pi")
                return VFloat(xr.fin(xr.PI))
            if attr in NP_FLOAT_DTYPES:
                return VDType("f", attr)
            if attr in NP_INT_DTYPES:
                return VDType("i", attr)
            if attr in NP_BOOL_DTYPES:
                return VDType("b", attr)
            if attr in ("random", "linalg"):
                return VModule(full)
        return VFunc("ext:" + full)

    # ---- calls
    def ev_Call(self, n, st, spec):
        # spec-level quantifiers
        if isinstance(n.func, ast.Name) and n.func.id in ("all", "any") and len(n.args) == 1 and \
                isinstance(n.args[0], ast.GeneratorExp):
            return self.quantifier(n.func.id, n.args[0], st, spec)
        if isinstance(n.func, ast.Name) and n.func.id == "old" and spec:
            return self.ev_old(n.args[0], st)
        if isinstance(n.func, ast.Name) and n.func.id == "at_entry" and spec:
            # at_entry(k, e): e evaluated in the state in which loop #k was (most recently) entered
            k = n.args[0].value
            pre = st.loop_pre.get(k)
            if pre is None:
                raise Unsupported("at_entry(%d, ...) outside loop #%d" % (k, k), n)
            v = pre.fork()
            v.pc = st.pc
            v.guards = st.guards
            for nm, val in st.env.items():
                if nm not in v.env and isinstance(val, (VInt, VBool, VFloat)):
                    v.env[nm] = val
            return self.ev(n.args[1], v, spec=True)
        if isinstance(n.func, ast.Name) and n.func.id == "wpos" and spec:
            # wpos(w, i): position of index i in w = np.where(c)[0] (defined when c[i])
            w = self.ev(n.args[0], st, True)
            i = to_int(self.ev(n.args[1], st, True), n)
            pos = getattr(self, "where_pos", {}).get(getattr(w, "cell", None))
            if pos is None:
                raise Unsupported("wpos of something that is not a np.where result", n)
            return VInt(pos(i))
        if isinstance(n.func, ast.Name) and n.func.id == "array2" and spec and isinstance(n.args[0], ast.Lambda):
            lam = n.args[0]
            names = [a.arg for a in lam.args.args]
            shape = [to_int(self.ev(a, st, True), n) for a in n.args[1:]]
            if len(names) != len(shape):
                raise Unsupported("array2 arity", n)
            ks = [z3.Int("a2!%d" % k) for k in range(len(names))]
            s2 = st.fork()
            for nm, k in zip(names, ks):
                s2.env[nm] = VInt(k)
            body = self.ev(lam.body, s2, True)
            t = to_float(body, n)
            for k in reversed(ks):
                t = z3.Lambda([k], t)
            cell = new_cell("array2")
            st.heap[cell] = ArrData(t, shape, "f", frozenset(), True)
            return VRef(cell)
        f = self.ev(n.func, st, spec)
        if not isinstance(f, VFunc):
            if isinstance(f, VDType):
                # np.float32(x)
                args = [self.ev(a, st, spec) for a in n.args]
                return self.cast(f.et, args[0], st, n, spec)
            raise Unsupported("call of %r" % (f,), n)
        args = [self.ev(a, st, spec) for a in n.args]
        kwargs = {k.arg: self.ev(k.value, st, spec) for k in n.keywords}
        return self.call(f, args, kwargs, st, n, spec)

    def ev_old(self, node, st):
        v = self.entry_view(st)
        v.pc = st.pc
        # quantifier-bound variables and scalar locals keep their current meaning inside old(...)
        for k, val in st.env.items():
            if k not in v.env and isinstance(val, (VInt, VBool, VFloat)):
                v.env[k] = val
        return self.ev(node, v, spec=True)

    def quantifier(self, which, gen, st, spec):
        """all(P for i in range(a, b) [if c] for j in range(...) ...) -> ForAll / Exists"""
        if not spec:
            raise Unsupported("all/any in code", gen)
        s2 = st.fork()
        bound = []
        conds = []
        for comp in gen.generators:
            if not isinstance(comp.target, ast.Name):
                raise Unsupported("quantifier target", gen)
            it = comp.iter
            if not (isinstance(it, ast.Call) and isinstance(it.func, ast.Name) and it.func.id == "range"):
                raise Unsupported("quantifier must range over range()", gen)
            rargs = [to_int(self.ev(a, s2, True), a) for a in it.args]
            v = z3.Int(fresh_name(comp.target.id))
            bound.append(v)
            s2.env[comp.target.id] = VInt(v)
            if len(rargs) == 1:
                conds.append(z3.And(v >= 0, v < rargs[0]))
            elif len(rargs) == 2:
                conds.append(z3.And(v >= rargs[0], v < rargs[1]))
            else:
                raise Unsupported("range step in quantifier", gen)
            for c in comp.ifs:
                conds.append(to_bool(self.ev(c, s2, True), c))
        body = to_bool(self.ev(gen.elt, s2, True), gen.elt)
        for f in s2.pc[len(st.pc):]:
            st.pc.append(f)
        rng = z3.And(*conds) if len(conds) > 1 else conds[0]
        if which == "all":
            # user triggers: `if trig(v)` guards naming every bound variable
            ids = {b.get_id(): b for b in bound}
            trigs = {}
            for cnd in conds:
                for t in ([cnd] + (cnd.children() if z3.is_and(cnd) else [])):
                    if z3.is_app(t) and t.decl().name() == "pyvc_trig" and t.arg(0).get_id() in ids:
                        trigs[t.arg(0).get_id()] = t
            if trigs and len(trigs) < len(bound):
                # bound variables without a trig guard: complete the multi-pattern with a 1-D array read indexed by that variable
                for b in bound:
                    if b.get_id() in trigs:
                        continue
                    found = []

                    def walk(t, b=b, found=found, seen=set()):
                        if t.get_id() in seen or found:
                            return
                        seen.add(t.get_id())
                        if z3.is_app(t):
                            if t.decl().kind() == z3.Z3_OP_SELECT and t.arg(1).get_id() == b.get_id() and z3.is_const(t.arg(0)) \
                                    and t.arg(0).decl().kind() == z3.Z3_OP_UNINTERPRETED:
                                found.append(t)
                                return
                            for ch in t.children():
                                walk(ch)
                    walk(body)
                    if found:
                        trigs[b.get_id()] = found[0]
            if trigs and len(trigs) == len(bound):
                pat = list(trigs.values())
                return VBool(z3.ForAll(bound, z3.Implies(rng, body), patterns=[pat[0] if len(pat) == 1 else z3.MultiPattern(*pat)]))
        if which == "all" and getattr(self.c, "options", {}).get("select_patterns"):
            # explicit triggers: every array read whose indices are exactly the bound variables is an alternative pattern
            # (the automatic choice tends to pick one read only, e.g. of an updated array, and misses instances)
            pats = self.select_patterns(z3.Implies(rng, body), bound)
            if pats:
                return VBool(z3.ForAll(bound, z3.Implies(rng, body), patterns=pats))
        if which == "all":
            return VBool(z3.ForAll(bound, z3.Implies(rng, body)))
        return VBool(z3.Exists(bound, z3.And(rng, body)))

    def select_patterns(self, f, bound):
        ids = {b.get_id() for b in bound}
        found, seen = [], set()

        def is_bound_chain(t):
            # Select(Select(A, b0), b1) ... with every index a distinct bound variable, A free of bound variables and lambdas
            idx = []
            while z3.is_app(t) and t.decl().kind() == z3.Z3_OP_SELECT:
                idx.append(t.arg(1))
                t = t.arg(0)
            if not idx or not all(z3.is_const(i) and i.get_id() in ids for i in idx):
                return False
            if len({i.get_id() for i in idx}) != len(bound):
                return False
            return z3.is_const(t) and t.decl().kind() == z3.Z3_OP_UNINTERPRETED

        def walk(t):
            if t.get_id() in seen:
                return
            seen.add(t.get_id())
            if z3.is_quantifier(t):
                return
            if z3.is_app(t):
                if is_bound_chain(t):
                    found.append(t)
                    return
                for ch in t.children():
                    walk(ch)
        walk(f)
        return found[:4]

    def cast(self, et, v, st, node, spec):
        if et == "f":
            if isinstance(v, VRef):
                return self.astype(v, "f", st, node)
            return VFloat(to_float(v, node))
        if et == "i":
            if isinstance(v, VFloat):
                return self.float_to_int(v, st, node, spec)
            return VInt(to_int(v, node))
        if et == "b":
            return VBool(to_bool(v, node))

    def float_to_int(self, v, st, node, spec):
        x = v.t
        if not spec:
            self.raise_if(st, z3.Not(xr.is_fin(x)), "ValueError", node)
        r = xr.val(x)
        return VInt(z3.If(r >= 0, z3.ToInt(r), -z3.ToInt(-r)))

    def astype(self, ref, et, st, node):
        a = st.heap[ref.cell]
        cell = new_cell("astype")
        if a.et == et:
            st.heap[cell] = ArrData(a.elems, a.shape, et, frozenset(), True)
        elif a.et == "i" and et == "f":
            na = fresh_array("asf", "f", a.ndim)
            ks = [z3.Int(fresh_name("q")) for _ in range(a.ndim)]
            nd = ArrData(na, a.shape, "f", frozenset(), True)
            st.assume(z3.ForAll(ks, nd.select(ks) == xr.from_int(a.select(ks)), patterns=[nd.select(ks)]))
            st.heap[cell] = nd
        elif a.et == "b" and et == "f":
            na = fresh_array("asf", "f", a.ndim)
            ks = [z3.Int(fresh_name("q")) for _ in range(a.ndim)]
            nd = ArrData(na, a.shape, "f", frozenset(), True)
            st.assume(z3.ForAll(ks, nd.select(ks) == xr.from_int(z3.If(a.select(ks), 1, 0)), patterns=[nd.select(ks)]))
            st.heap[cell] = nd
        else:
            raise Unsupported("astype %s->%s" % (a.et, et), node)
        return VRef(cell)

    def dtype_of(self, v, default="f"):
        if v is None:
            return default
        if isinstance(v, VDType):
            return v.et
        if isinstance(v, VStr):
            if v.s in NP_FLOAT_DTYPES or v.s.startswith("f"):
                return "f"
            if v.s in NP_INT_DTYPES or v.s[0] in "iu":
                return "i"
            if v.s in NP_BOOL_DTYPES:
                return "b"
        if isinstance(v, VFunc) and v.name in ("builtin:float",):
            return "f"
        if isinstance(v, VFunc) and v.name in ("builtin:int",):
            return "i"
        if isinstance(v, VFunc) and v.name in ("builtin:bool",):
            return "b"
        raise Unsupported("dtype %r" % (v,))

    def zero_of(self, et):
        return {"f": xr.fin(0), "i": z3.IntVal(0), "b": z3.BoolVal(False)}[et]

    def alloc(self, st, shape, et, fill=None, base="new"):
        cell = new_cell(base)
        nd = len(shape)
        if fill is None:
            elems = fresh_array(base, et, nd)
        else:
            elems = const_array(et, nd, fill)
        st.heap[cell] = ArrData(elems, shape, et, frozenset(), True)
        return VRef(cell)

    def shape_arg(self, v, st, node):
        if isinstance(v, VTuple):
            return [to_int(i, node) for i in v.items]
        if isinstance(v, VInt):
            return [v.t]
        raise Unsupported("shape argument %r" % (v,), node)

    def call(self, f, args, kwargs, st, n, spec):
        name = f.name
        # ---- builtins
        if name.startswith("builtin:"):
            return self.call_builtin(name[8:], args, kwargs, st, n, spec)
        if name.startswith("spec:"):
            return self.call_spec(name[5:], args, st, n)
        if name.startswith("ext:"):
            return self.call_ext(name[4:], args, kwargs, st, n, spec)
        if name.startswith("method:"):
            return self.call_method(name[7:], f.bound["self"], args, kwargs, st, n, spec)
        if name.startswith("local:"):
            return self.call_local(self.c.module, name[6:], args, kwargs, st, n, spec)
        if name.startswith("xr:"):
            canon = name[3:]
            modname, fn = canon.rsplit(".", 1)
            rel = modname.replace(".", "/") + ".py"
            return self.call_local(rel, fn, args, kwargs, st, n, spec)
        if name.startswith("param:"):
            return self.call_uf(name, args, st, n)
        raise Unsupported("call %s" % name, n)

    def restrict(self, d):
        """canonical form of an array value: elements outside the shape replaced by a default, so that two arrays
        with equal shapes and equal in-range elements are equal terms (extensionality)"""
        ks = [z3.Int("rs!%d" % k) for k in range(d.ndim)]
        inr = z3.And(*[z3.And(k >= 0, k < sh) for k, sh in zip(ks, d.shape)])
        dflt = {"f": xr.NAN, "i": z3.IntVal(0), "b": z3.BoolVal(False)}[d.et]
        t = z3.If(inr, d.select(ks), dflt)
        for k in reversed(ks):
            t = z3.Lambda([k], t)
        return t

    def call_uf(self, name, args, st, n):
        """uninterpreted function of its arguments (a user reducer, a NumPy reduction under an assumed contract)"""
        sorts = []
        terms = []
        for a in args:
            if isinstance(a, VRef):
                d = st.heap[a.cell]
                r = self.restrict(d)
                terms.append(r)
                sorts.append(r.sort())
                for s in d.shape:
                    terms.append(s)
                    sorts.append(z3.IntSort())
            elif isinstance(a, VFloat):
                terms.append(a.t)
                sorts.append(xr.F)
            elif isinstance(a, VInt):
                terms.append(a.t)
                sorts.append(z3.IntSort())
            else:
                raise Unsupported("uf arg %r" % (a,), n)
        fn = z3.Function("uf_" + name.replace(":", "_"), *(sorts + [xr.F]))
        return VFloat(fn(*terms))

    def call_builtin(self, b, args, kwargs, st, n, spec):
        if b == "len":
            a = args[0]
            if isinstance(a, VTuple):
                return VInt(len(a.items))
            if isinstance(a, VRef):
                return VInt(st.heap[a.cell].shape[0])
            raise Unsupported("len of %r" % (a,), n)
        if b == "isnan":
            return VBool(xr.is_nan(to_float(args[0], n)))
        if b == "isfinite":
            return VBool(xr.is_fin(to_float(args[0], n)))
        if b == "isinf":
            x = to_float(args[0], n)
            return VBool(z3.Or(xr.is_pinf(x), xr.is_ninf(x)))
        if b == "implies":
            return VBool(z3.Implies(to_bool(args[0]), to_bool(args[1])))
        if b == "iff":
            return VBool(to_bool(args[0]) == to_bool(args[1]))
        if b == "ite":
            v = merge_values(to_bool(args[0]), args[1], args[2])
            if v is None:
                raise Unsupported("ite", n)
            return v
        if b == "abs":
            a = args[0]
            if isinstance(a, VInt):
                return VInt(z3.If(a.t >= 0, a.t, -a.t))
            return VFloat(xr.fabs(to_float(a, n)))
        if b in ("min", "max") and len(args) == 1 and isinstance(args[0], VRef) and st.heap[args[0].cell].ndim == 1:
            # assumed Python contract: min / max of a non-empty sequence without NaN is one of its elements and bounds all of them
            a = st.heap[args[0].cell]
            if not spec:
                self.raise_if(st, a.shape[0] == 0, "ValueError", n)
            m = fresh_scalar(b, "f" if a.et == "f" else "i")
            k, w = z3.Int(fresh_name("mk")), z3.Int(fresh_name(b + ".at"))
            ek, ew = self.wrap_elem(a, a.select([k])), self.wrap_elem(a, a.select([w]))
            op = ast.LtE() if b == "min" else ast.GtE()
            nonan = z3.ForAll([k], z3.Implies(z3.And(k >= 0, k < a.shape[0]), z3.Not(xr.is_nan(to_float(ek))))) if a.et == "f" else z3.BoolVal(True)
            st.assume(z3.Implies(nonan, z3.And(w >= 0, w < a.shape[0], self.cmp(ast.Eq(), m, ew, n),
                                               z3.ForAll([k], z3.Implies(z3.And(k >= 0, k < a.shape[0]), self.cmp(op, m, ek, n))))))
            self.notes.append("assumed: %s(seq) of a NaN-free non-empty sequence is an element that bounds all elements" % b)
            return m
        if b in ("min", "max"):
            if len(args) == 1 and isinstance(args[0], VTuple):
                args = args[0].items
            r = args[0]
            for a in args[1:]:
                if isinstance(r, VInt) and isinstance(a, VInt):
                    r = VInt(z3.If(a.t < r.t, a.t, r.t) if b == "min" else z3.If(a.t > r.t, a.t, r.t))
                else:
                    x, y = to_float(r, n), to_float(a, n)
                    r = VFloat(xr.fmin2(x, y) if b == "min" else xr.fmax2(x, y))
            return r
        if b == "int":
            a = args[0]
            if isinstance(a, VFloat):
                return self.float_to_int(a, st, n, spec)
            return VInt(to_int(a, n))
        if b == "float":
            return VFloat(to_float(args[0], n))
        if b == "bool":
            return VBool(to_bool(args[0], n))
        if b == "sqrt":
            self.used_axioms.add("sqrt")
            return VFloat(xr.sqrt(to_float(args[0], n)))
        if b == "floor":
            x = to_float(args[0], n)
            return VInt(z3.ToInt(xr.val(x)))
        if b in ("atan", "sin", "cos", "asin", "exp"):
            return VFloat(getattr(xr, b)(to_float(args[0], n)))
        if b == "atan2":
            return VFloat(xr.atan2(to_float(args[0], n), to_float(args[1], n)))
        if b in ("nanmean", "nansum", "nanmin", "nanmax", "nanstd", "nanvar"):
            return self.call_uf("np_" + b, args, st, n)
        if b == "valid_values":
            return self.valid_values(args[0], args[1], st, n, spec)
        if b == "array_eq":
            da_, db_ = st.heap[args[0].cell], st.heap[args[1].cell]
            return VBool(z3.And(*([x == y for x, y in zip(da_.shape, db_.shape)] + [self.restrict(da_) == self.restrict(db_)])))
        if b in ("same", "close"):
            # value identity including NaN (exact in the XR model; tolerant only in native replay)
            x, y = to_float(args[0], n), to_float(args[1], n)
            return VBool(x == y)
        if b == "trig":
            # trig(i): always true; its only role is to be the trigger of quantifiers guarded by it (`... for p in range(..) if trig(p)`),
            # which are then instantiated exactly at the indices some hint or goal names - no matching loops through p-1, p-nx, ...
            x = z3.Int("trig!x")
            self.defs["trig"] = z3.ForAll([x], TRIG(x), patterns=[TRIG(x)])
            return VBool(TRIG(to_int(args[0], n)))
        if b == "print":
            return VNone()
        if b == "range":
            return VTuple([VStr("range")] + args)
        if b == "tuple" or b == "list":
            return args[0]
        if b in ("ValueError", "TypeError", "ZeroDivisionError", "Exception", "IndexError", "AssertionError",
                 "NotImplementedError"):
            return VStr("exc:" + b)
        raise Unsupported("builtin %s" % b, n)

    def call_spec(self, name, args, st, n):
        fnode = self.spec_funcs()[name]
        if name in getattr(self.specmod, "OPAQUE", ()) or name in getattr(self.specmod, "RECURSIVE", {}):
            return self.call_opaque(name, fnode, args, st, n)
        return self.inline_spec(name, fnode, args, st, n)

    def inline_spec(self, name, fnode, args, st, n):
        sub = st.fork()
        sub.env = {}
        for p, a in zip(fnode.args.args, args):
            sub.env[p.arg] = a
        if len(fnode.args.args) != len(args):
            raise Unsupported("spec function arity %s" % name, n)
        sub.guards = []
        sub.status = "run"
        self.suppress += 1
        saved_prune = self.prune
        self.prune = False
        try:
            outs = self.exec_block(fnode.body, sub, spec=True)
        finally:
            self.suppress -= 1
            self.prune = saved_prune
        rets = [o for o in outs if o.status == "return"]
        if not rets or len(rets) != len(outs):
            raise Unsupported("spec function %s must return on every path" % name, n)
        for o in rets:
            for k, v in o.heap.items():
                if k not in st.heap:
                    st.heap[k] = v
        # combine: each return state has extra pc = branch conditions
        base = len(st.pc)
        res = rets[-1].ret
        for o in reversed(rets[:-1]):
            cond = z3.And(*o.pc[base:]) if len(o.pc) > base else z3.BoolVal(True)
            res = merge_values(cond, o.ret, res)
            if res is None:
                raise Unsupported("spec function %s: incompatible return values" % name, n)
        return res

    def call_opaque(self, name, fnode, args, st, n):
        """spec function kept opaque: uninterpreted symbol + definitional axiom (instantiated by E-matching
        only at the ground applications that occur in an obligation).  Recursive spec functions
        (specs.RECURSIVE: name -> result type) additionally carry a fuel argument so that the
        definition unfolds at most twice from any ground application (no matching loop)."""
        sig = []
        terms = []
        for a in args:
            if isinstance(a, VRef):
                d = st.heap[a.cell]
                sig.append(("a", d.et, d.ndim))
                terms.append(d.elems)
            elif isinstance(a, VFloat):
                sig.append(("f",))
                terms.append(a.t)
            elif isinstance(a, VInt):
                sig.append(("i",))
                terms.append(a.t)
            elif isinstance(a, VBool):
                sig.append(("b",))
                terms.append(a.t)
            elif isinstance(a, VFunc):
                sig.append(("fn", a.name))        # an uninterpreted callable, identified by name: no term argument
            else:
                raise Unsupported("opaque spec arg %r" % (a,), n)
        key = (name, tuple(sig))
        rec = getattr(self.specmod, "RECURSIVE", {})
        is_rec = name in rec
        cur = getattr(self, "_defining", None)
        if cur is not None and cur[0] == key:
            # recursive call inside the definition being built: one unit of fuel less
            uf, rs = cur[1], cur[2]
            return {xr.F: VFloat, z3.IntSort(): VInt, z3.BoolSort(): VBool}[rs](uf(cur[3], *terms))
        if key not in OPAQUE_DEFS:
            bvars, bvals = [], []
            tmp = State()
            tmp.old_heap = {}
            tmp.entry_env = {}
            for k, sg in enumerate(sig):
                if sg[0] == "a":
                    v = z3.Const("%s!a%d" % (name, k), arr_sort(sg[1], sg[2]))
                    cell = new_cell("def")
                    tmp.heap[cell] = ArrData(v, [z3.Int("%s!a%d.s%d" % (name, k, j)) for j in range(sg[2])], sg[1])
                    bvals.append(VRef(cell))
                elif sg[0] == "f":
                    v = z3.Const("%s!a%d" % (name, k), xr.F)
                    bvals.append(VFloat(v))
                elif sg[0] == "i":
                    v = z3.Int("%s!a%d" % (name, k))
                    bvals.append(VInt(v))
                elif sg[0] == "fn":
                    bvals.append(VFunc(sg[1]))
                    continue
                else:
                    v = z3.Bool("%s!a%d" % (name, k))
                    bvals.append(VBool(v))
                bvars.append(v)
            ufname = "spec_" + name + "_" + "".join(x[0][0] for x in sig)
            saved = getattr(self, "_defining", None)
            if is_rec:
                rs = {"float": xr.F, "int": z3.IntSort(), "bool": z3.BoolSort()}[rec[name]]
                uf = z3.Function(ufname, *([Fuel] + [v.sort() for v in bvars] + [rs]))
                fk = z3.Const("%s!fuel" % name, Fuel)
                self._defining = (key, uf, rs, fk)
            else:
                self._defining = (("<inline>", name), None, None, None)
            try:
                body = self.inline_spec(name, fnode, bvals, tmp, n)
            finally:
                self._defining = saved
            ax_used = set(self.used_axioms)
            if isinstance(body, VFloat):
                rs2, bt = xr.F, body.t
            elif isinstance(body, VInt):
                rs2, bt = z3.IntSort(), body.t
            elif isinstance(body, VBool):
                rs2, bt = z3.BoolSort(), body.t
            else:
                raise Unsupported("opaque spec result %r" % (body,), n)
            if is_rec:
                if rs2 != rs:
                    if rs == xr.F and rs2 == z3.IntSort():
                        bt = xr.from_int(bt)
                    else:
                        raise Unsupported("recursive spec %s: declared result type does not match" % name, n)
                lhs = uf(Fuel.FS(fk), *bvars)
                ax = z3.And(z3.ForAll([fk] + bvars, lhs == bt, patterns=[lhs]),
                            z3.ForAll([fk] + bvars, lhs == uf(fk, *bvars), patterns=[lhs]))
            else:
                rs = rs2
                uf = z3.Function(ufname, *([v.sort() for v in bvars] + [rs]))
                ax = z3.ForAll(bvars, uf(*bvars) == bt, patterns=[uf(*bvars)])
            OPAQUE_DEFS[key] = (uf, ax, rs, ax_used, is_rec)
        uf, ax, rs, ax_used, is_rec = OPAQUE_DEFS[key]
        self.used_axioms |= ax_used
        self.defs[key] = ax
        t = uf(FUEL2, *terms) if is_rec else uf(*terms)
        return {xr.F: VFloat, z3.IntSort(): VInt, z3.BoolSort(): VBool}[rs](t)

    MATH1 = {"arctan": "atan", "atan": "atan", "sqrt": "sqrt", "sin": "sin", "cos": "cos", "tan": "tan",
             "arcsin": "asin", "asin": "asin", "exp": "exp"}

    def call_ext(self, canon, args, kwargs, st, n, spec):
        mod, _, fn = canon.rpartition(".")
        if mod in ("numpy", "math", "cupy"):
            if fn in self.MATH1 and not isinstance(args[0], VRef):
                k = self.MATH1[fn]
                if k == "sqrt":
                    self.used_axioms.add("sqrt")
                return VFloat(getattr(xr, k)(to_float(args[0], n)))
            if fn in self.MATH1 and isinstance(args[0], VRef):
                k = self.MATH1[fn]
                if k == "sqrt":
                    self.used_axioms.add("sqrt")
                return self.amap(st, lambda x: VFloat(getattr(xr, k)(to_float(x))), [args[0]], "f", n, spec)
            if fn in ("arctan2", "atan2") and (isinstance(args[0], VRef) or isinstance(args[1], VRef)):
                return self.amap(st, lambda x, y: VFloat(xr.atan2(to_float(x), to_float(y))), args[:2], "f", n, spec)
            if fn in ("arctan2", "atan2"):
                return VFloat(xr.atan2(to_float(args[0], n), to_float(args[1], n)))
            if fn in ("any", "all") and isinstance(args[0], VRef) and not kwargs and len(args) == 1:
                a = st.heap[args[0].cell]
                if a.et != "b":
                    raise Unsupported("np.%s of non-bool array" % fn, n)
                ks = [z3.Int(fresh_name("k")) for _ in range(a.ndim)]
                rng = z3.And(*[z3.And(k >= 0, k < sh) for k, sh in zip(ks, a.shape)])
                if fn == "any":
                    return VBool(z3.Exists(ks, z3.And(rng, a.select(ks))))
                return VBool(z3.ForAll(ks, z3.Implies(rng, a.select(ks))))
            if fn == "sum" and isinstance(args[0], VRef) and st.heap[args[0].cell].et == "b" and len(args) == 1 and not kwargs:
                a = st.heap[args[0].cell]
                cnt = z3.Int(fresh_name("count"))
                ks = [z3.Int(fresh_name("k")) for _ in range(a.ndim)]
                rng = z3.And(*[z3.And(k >= 0, k < sh) for k, sh in zip(ks, a.shape)])
                st.assume(z3.And(cnt >= 0, (cnt > 0) == z3.Exists(ks, z3.And(rng, a.select(ks)))))
                self.notes.append("assumed: np.sum(bool array) >= 0 and > 0 exactly when some element is true")
                return VInt(cnt)
            if fn in ("nanmean", "nansum", "nanmin", "nanmax", "nanstd", "nanvar", "mean", "sum", "min", "max", "std", "var") \
                    and isinstance(args[0], VRef) and len(args) == 1 and not kwargs:
                self.notes.append("assumed: np.%s is a function of the array it is given" % fn)
                return self.call_uf("np_" + fn, args, st, n)
            if fn == "linspace" and len(args) == 3 and not kwargs and all(isinstance(a, VInt) for a in args):
                a_, b_, n_ = [x.t for x in args]
                if z3.is_true(z3.simplify(a_ + b_ == 0)) and z3.is_true(z3.simplify(n_ == 2 * b_ + 1)):
                    # assumed NumPy contract (DESIGN 3): np.linspace(-h, h, 2h+1)[i] == -h + i for integer h >= 0
                    if not spec:
                        self.raise_if(st, n_ < 0, "ValueError", n)
                    i = z3.Int("ls!0")
                    cell = new_cell("linspace")
                    st.heap[cell] = ArrData(z3.Lambda([i], xr.from_int(a_ + i)), [n_], "f", frozenset(), True)
                    self.notes.append("assumed: np.linspace(-h, h, 2h+1)[i] == -h + i")
                    return VRef(cell)
                raise Unsupported("np.linspace in a form without an assumed contract", n)
            if fn == "sort" and isinstance(args[0], VRef) and st.heap[args[0].cell].ndim == 1 and not kwargs:
                a = st.heap[args[0].cell]
                cell = new_cell("sorted")
                st.heap[cell] = ArrData(fresh_array("sorted", a.et, 1), [a.shape[0]], a.et, frozenset(), True)
                self.notes.append("np.sort: result modelled as an arbitrary array of the same length")
                return VRef(cell)
            if fn == "gradient" and isinstance(args[0], VRef) and len(args) == 1 and not kwargs:
                return self.np_gradient(args[0], st, n, spec)
            if fn in ("isnan", "isfinite", "isinf") and isinstance(args[0], VRef):
                pred = {"isnan": lambda t: xr.is_nan(t), "isfinite": lambda t: xr.is_fin(t),
                        "isinf": lambda t: z3.Or(xr.is_pinf(t), xr.is_ninf(t))}[fn]
                return self.amap(st, lambda x: VBool(pred(to_float(x))), [args[0]], "b", n, spec)
            if fn in ("isnan",) and not isinstance(args[0], VRef):
                return VBool(xr.is_nan(to_float(args[0], n)))
            if fn in ("isfinite",) and not isinstance(args[0], VRef):
                return VBool(xr.is_fin(to_float(args[0], n)))
            if fn in ("isinf",) and not isinstance(args[0], VRef):
                x = to_float(args[0], n)
                return VBool(z3.Or(xr.is_pinf(x), xr.is_ninf(x)))
            if fn in ("fabs", "abs", "absolute") and isinstance(args[0], VRef):
                et = st.heap[args[0].cell].et
                if et == "i":
                    return self.amap(st, lambda x: VInt(z3.If(x.t >= 0, x.t, -x.t)), [args[0]], "i", n, spec)
                return self.amap(st, lambda x: VFloat(xr.fabs(to_float(x))), [args[0]], "f", n, spec)
            if fn == "where" and len(args) == 1 and not kwargs and isinstance(args[0], VRef) and st.heap[args[0].cell].ndim == 1 \
                    and st.heap[args[0].cell].et == "b":
                # assumed NumPy contract: np.where(c) of a 1-D boolean array is (w,), w the strictly increasing array of exactly
                # the indices at which c is true
                a = st.heap[args[0].cell]
                ln = z3.Int(fresh_name("where.len"))
                w = fresh_array("where", "i", 1)
                pos = z3.Function(fresh_name("where.pos"), z3.IntSort(), z3.IntSort())
                i, j = z3.Int(fresh_name("wi")), z3.Int(fresh_name("wj"))
                wi, wj = z3.Select(w, i), z3.Select(w, j)
                st.assume(z3.And(ln >= 0, ln <= a.shape[0]))
                st.assume(z3.ForAll([i], z3.Implies(z3.And(i >= 0, i < ln), z3.And(wi >= 0, wi < a.shape[0], a.select([wi]))),
                                    patterns=[wi]))
                st.assume(z3.ForAll([i, j], z3.Implies(z3.And(0 <= i, i < j, j < ln), wi < wj), patterns=[z3.MultiPattern(wi, wj)]))
                st.assume(z3.ForAll([i], z3.Implies(z3.And(i >= 0, i < a.shape[0], a.select([i])),
                                                    z3.And(pos(i) >= 0, pos(i) < ln, z3.Select(w, pos(i)) == i)), patterns=[pos(i)]))
                self.where_pos = getattr(self, "where_pos", {})
                cell = new_cell("where")
                st.heap[cell] = ArrData(w, [ln], "i", frozenset(), True)
                self.where_pos[cell] = pos
                self.notes.append("assumed: np.where(c)[0] lists exactly the true indices of a 1-D boolean array, increasing")
                return VTuple([VRef(cell)])
            if fn in ("fabs", "abs", "absolute") and not isinstance(args[0], VRef):
                return self.call_builtin("abs", args, kwargs, st, n, spec)
            if fn == "radians":
                self.used_axioms.add("pi")
                return VFloat(xr.mul(to_float(args[0], n), xr.fin(xr.PI / 180)))
            if fn == "degrees":
                self.used_axioms.add("pi")
                return VFloat(xr.mul(to_float(args[0], n), xr.fin(180 / xr.PI)))
            if fn == "iinfo" and len(args) == 1 and isinstance(args[0], VDType):
                return VModule("iinfo:%s" % (args[0].name or args[0].et))
            if fn in ("float32", "float64"):
                return self.cast("f", args[0], st, n, spec)
            if fn in ("int32", "int64", "uint8"):
                return self.cast("i", args[0], st, n, spec)
            if fn in ("zeros_like", "empty_like", "ones_like", "full_like"):
                a = st.heap[args[0].cell]
                et = self.dtype_of(kwargs.get("dtype"), a.et)
                fill = {"zeros_like": self.zero_of(et), "empty_like": None,
                        "ones_like": {"f": xr.fin(1), "i": z3.IntVal(1), "b": z3.BoolVal(True)}[et]}.get(fn)
                if fn == "full_like":
                    fv = args[1] if len(args) > 1 else kwargs["fill_value"]
                    tmp = ArrData(None, a.shape, et)
                    fill = self.unwrap_elem(tmp, fv, n)
                return self.alloc(st, a.shape, et, fill, base=fn)
            if fn in ("zeros", "empty", "ones", "full"):
                if not args and "shape" in kwargs:
                    args = [kwargs["shape"]]
                shape = self.shape_arg(args[0], st, n)
                if not spec:
                    for k, s in enumerate(shape):
                        self.raise_if(st, s < 0, "ValueError", n)
                dt = kwargs.get("dtype", args[1] if (len(args) > 1 and fn != "full") else None)
                if fn == "full" and len(args) > 2:
                    dt = args[2]
                et = self.dtype_of(dt, "f")
                if fn == "full":
                    fv = args[1] if len(args) > 1 else kwargs["fill_value"]
                    tmp = ArrData(None, shape, et)
                    fill = self.unwrap_elem(tmp, fv, n)
                else:
                    fill = {"zeros": self.zero_of(et), "empty": None,
                            "ones": {"f": xr.fin(1), "i": z3.IntVal(1), "b": z3.BoolVal(True)}[et]}[fn]
                return self.alloc(st, shape, et, fill, base=fn)
            if fn == "asarray" or fn == "ascontiguousarray":
                return args[0]
        raise Unsupported("external call %s" % canon, n)

    def np_gradient(self, ref, st, n, spec):
        """assumed NumPy contract (DESIGN 3): np.gradient(f) with unit spacing returns one array per axis, in
        axis order; central differences in the interior, one-sided first differences at the two ends;
        raises ValueError if an axis has fewer than 2 elements."""
        a = st.heap[ref.cell]
        if a.ndim != 2 or a.et != "f":
            raise Unsupported("np.gradient of non 2-D float array", n)
        rows, cols = a.shape
        if not spec:
            self.raise_if(st, z3.Or(rows < 2, cols < 2), "ValueError", n)
        i, j = z3.Int(fresh_name("gi")), z3.Int(fresh_name("gj"))
        half = xr.fin(z3.Q(1, 2))

        def d(hi, lo):
            return xr.sub(a.select(hi), a.select(lo))
        g0 = z3.If(i == 0, d([1, j], [0, j]),
                   z3.If(i == rows - 1, d([rows - 1, j], [rows - 2, j]), xr.mul(d([i + 1, j], [i - 1, j]), half)))
        g1 = z3.If(j == 0, d([i, 1], [i, 0]),
                   z3.If(j == cols - 1, d([i, cols - 1], [i, cols - 2]), xr.mul(d([i, j + 1], [i, j - 1]), half)))
        outs = []
        for g in (g0, g1):
            cell = new_cell("grad")
            st.heap[cell] = ArrData(z3.Lambda([i], z3.Lambda([j], g)), a.shape, "f", frozenset(), True)
            outs.append(VRef(cell))
        self.notes.append("assumed: np.gradient = central differences (x 1/2) in the interior, one result per axis in axis order")
        return VTuple(outs)

    def call_method(self, meth, selfv, args, kwargs, st, n, spec):
        if isinstance(selfv, VRef):
            a = st.heap[selfv.cell]
            if meth == "astype":
                et = self.dtype_of(args[0] if args else kwargs.get("dtype"))
                return self.astype(selfv, et, st, n)
            if meth == "copy":
                cell = new_cell("copy")
                st.heap[cell] = ArrData(a.elems, a.shape, a.et, frozenset(), True)
                return VRef(cell)
            if meth == "append" and len(args) == 1 and a.ndim == 1:
                v = self.unwrap_elem(a, args[0], n)
                self.note_write(st, selfv, n)
                na = ArrData(z3.Store(a.elems, a.shape[0], v), [a.shape[0] + 1], a.et, a.roots, a.fresh)
                na.is_list = True
                st.heap[selfv.cell] = na
                return VNone()
            if meth in ("any", "all") and a.et == "b" and not args:
                ks = [z3.Int(fresh_name("k")) for _ in range(a.ndim)]
                rng = z3.And(*[z3.And(k >= 0, k < sh) for k, sh in zip(ks, a.shape)])
                if meth == "any":
                    return VBool(z3.Exists(ks, z3.And(rng, a.select(ks))))
                return VBool(z3.ForAll(ks, z3.Implies(rng, a.select(ks))))
            if meth == "reshape" and a.ndim == 1 and len(args) == 1 and isinstance(args[0], VTuple) and len(args[0].items) == 2:
                # v.reshape((-1, c)) / (r, c) of a 1-D array: row-major, out[i, j] == v[i*c + j] (a view: writes are not propagated
                # back to v, which is fine as long as v itself is not read afterwards)
                r_, c_ = [z3.simplify(to_int(x, n)) for x in args[0].items]
                if not z3.is_int_value(c_) or c_.as_long() <= 0:
                    raise Unsupported("reshape with a symbolic / non-positive column count", n)
                cc = c_.as_long()
                if z3.is_int_value(r_) and r_.as_long() == -1:
                    if not spec:
                        self.raise_if(st, a.shape[0] % cc != 0, "ValueError", n)
                    rows = a.shape[0] / cc
                else:
                    rows = r_
                    if not spec:
                        self.raise_if(st, rows * cc != a.shape[0], "ValueError", n)
                i, j = z3.Int(fresh_name("ri")), z3.Int(fresh_name("rj"))
                named = fresh_array("reshaped", a.et, 2)
                st.assume(z3.ForAll([i, j], z3.Implies(z3.And(i >= 0, j >= 0, j < cc),
                                                       z3.Select(z3.Select(named, i), j) == a.select([i * cc + j])),
                                    patterns=[z3.Select(z3.Select(named, i), j)]))
                cell = new_cell("reshape")
                st.heap[cell] = ArrData(named, [rows, z3.IntVal(cc)], a.et, a.roots, a.fresh)
                return VRef(cell)
            if meth == "index" and len(args) == 1 and a.ndim == 1 and not kwargs:
                # assumed Python contract: seq.index(v) is the first position holding a value equal to v (ValueError if none)
                k, i = z3.Int(fresh_name("ik")), z3.Int(fresh_name("index"))
                ek = self.wrap_elem(a, a.select([k]))
                ei = self.wrap_elem(a, a.select([i]))
                v = args[0]
                if not spec:
                    self.raise_if(st, z3.Not(z3.Exists([k], z3.And(k >= 0, k < a.shape[0], self.cmp(ast.Eq(), ek, v, n)))), "ValueError", n)
                st.assume(z3.And(i >= 0, i < a.shape[0], self.cmp(ast.Eq(), ei, v, n),
                                 z3.ForAll([k], z3.Implies(z3.And(k >= 0, k < i), z3.Not(self.cmp(ast.Eq(), ek, v, n))))))
                self.notes.append("assumed: seq.index(v) is the first position whose element equals v")
                return VInt(i)
            if meth == "sort" and a.ndim == 1 and not args and not kwargs:
                # assumed Python / NumPy contract: in-place sort of a NaN-free sequence leaves a non-decreasing rearrangement
                # (every new element is an old one and vice versa; multiplicities are not modelled)
                snew = fresh_array("sorted", a.et, 1)
                i, j = z3.Int(fresh_name("si")), z3.Int(fresh_name("sj"))
                src = z3.Function(fresh_name("sort.from"), z3.IntSort(), z3.IntSort())
                dst = z3.Function(fresh_name("sort.to"), z3.IntSort(), z3.IntSort())
                ln = a.shape[0]
                old_i = self.wrap_elem(a, a.select([i]))
                w = lambda t: self.wrap_elem(a, t)
                nonan = z3.ForAll([i], z3.Implies(z3.And(i >= 0, i < ln), z3.Not(xr.is_nan(to_float(old_i))))) if a.et == "f" else z3.BoolVal(True)
                si, sj = z3.Select(snew, i), z3.Select(snew, j)
                facts = z3.And(
                    z3.ForAll([i, j], z3.Implies(z3.And(0 <= i, i <= j, j < ln), self.cmp(ast.LtE(), w(si), w(sj), n)),
                              patterns=[z3.MultiPattern(si, sj)]),
                    z3.ForAll([i], z3.Implies(z3.And(0 <= i, i < ln), z3.And(src(i) >= 0, src(i) < ln, si == a.select([src(i)]))), patterns=[si]),
                    z3.ForAll([i], z3.Implies(z3.And(0 <= i, i < ln), z3.And(dst(i) >= 0, dst(i) < ln, z3.Select(snew, dst(i)) == a.select([i]))),
                              patterns=[dst(i)] if "lambda" in a.elems.sexpr() else [a.select([i])]))
                st.assume(z3.Implies(nonan, facts))
                # a NaN stays in the sequence wherever the sort leaves it
                if a.et == "f":
                    st.assume((z3.Not(nonan)) == z3.Exists([i], z3.And(i >= 0, i < ln, xr.is_nan(si))))
                self.note_write(st, selfv, n)
                self.sort_dst = getattr(self, "sort_dst", {})
                self.sort_dst[selfv.cell] = dst
                na = a.with_elems(snew)
                if getattr(a, "is_list", False):
                    na.is_list = True
                st.heap[selfv.cell] = na
                self.notes.append("assumed: seq.sort() leaves a non-decreasing rearrangement of a NaN-free sequence")
                return VNone()
            if meth == "fill":
                v = self.unwrap_elem(a, args[0], n)
                st.heap[selfv.cell] = a.with_elems(const_array(a.et, a.ndim, v))
                self.note_write(st, selfv, n)
                return VNone()
        raise Unsupported("method %s on %r" % (meth, selfv), n)

    def note_write(self, st, ref, node):
        """frame obligation: a store into an array that may alias a parameter must be declared"""
        a = st.heap[ref.cell]
        for r in a.roots:
            if r not in self.c.modifies:
                self.oblige(st, "frame", "%s@%s" % (r, self.line_tag(node)), z3.BoolVal(False), node,
                            desc="write to parameter %s not in modifies" % r)

    # ---- modular / inline calls to repo functions
    def call_local(self, module, qual, args, kwargs, st, n, spec):
        callee = REGISTRY.get((module, qual))
        if callee is None:
            # nested function of the current one?
            callee = REGISTRY.get((module, self.c.qualname + "." + qual))
        if callee is None:
            raise Unsupported("call to %s:%s which has no contract" % (module, qual), n)
        # bind
        names = list(callee.params)
        bound = {}
        for k, a in enumerate(args):
            bound[names[k]] = a
        for k, a in kwargs.items():
            bound[k] = a
        if len(bound) != len(names):
            # fill literal defaults from the callee's real signature
            try:
                cf = load_module(callee.module).funcs.get(callee.qualname)
                a = cf.args
                pn = [x.arg for x in a.args]
                for nm, d in zip(pn[len(pn) - len(a.defaults):], a.defaults):
                    if nm not in bound:
                        bound[nm] = self.ev(d, State(), True)
            except Exception:
                pass
        if callee.inline:
            return self.inline_call(callee, bound, st, n, spec)
        # ghost parameters of the callee are taken from the caller's ghost state of the same name
        for g in getattr(callee, "ghost_params", {}):
            if g in st.env:
                bound[g] = st.env[g]
                names.append(g)
            else:
                raise Unsupported("call to %s: no ghost value %s in the caller" % (qual, g), n)
        if len(bound) != len(names):
            # defaults are not modelled
            raise Unsupported("call to %s with missing args %s" % (qual, set(names) - set(bound)), n)
        cst = st.fork()
        cst.env = dict(bound)
        for k, v in callee.closure.items():
            if k in st.env:
                cst.env[k] = st.env[k]
        cst.guards = list(st.guards)
        sub = Executor(callee, self.specmod)
        sub.defs = self.defs
        sub.suppress = 1
        # type conformance (shallow)
        for nm, ty in list(callee.params.items()) + list(getattr(callee, "ghost_params", {}).items()):
            self.check_type(bound[nm], ty, cst, nm, n)
        cst.entry_env = dict(cst.env)
        cst.old_heap = dict(cst.heap)
        for nm, e in callee.lets:
            cst.env[nm] = sub.spec(e, cst)
            cst.entry_env[nm] = cst.env[nm]
        for k, r in enumerate(callee.requires):
            g = sub.spec_bool(r, cst)
            if not spec and callee.qualname in getattr(self.c, "options", {}).get("skip_call_requires", ()):
                continue        # discharged by another contract of the same function (stated in its notes)
            if not spec:
                o = self.oblige(st, "requires@call", "%s.%d@%s" % (callee.qualname, k, self.line_tag(n)), g, n,
                                desc="precondition of %s: %s" % (callee.qualname, r), extra_hyps=cst.pc[len(st.pc):])
                why = getattr(self.c, "options", {}).get("assume_call_requires", {}).get((callee.qualname, k))
                if o is not None and why:
                    o.assumed = why
        # aliasing precondition: modified params must not alias other array params
        # havoc modifies
        for m in callee.modifies:
            ref = bound[m]
            a = st.heap[ref.cell]
            if not spec:
                self.note_write(st, ref, n)
            na = a.with_elems(fresh_array("hv_" + m, a.et, a.ndim))
            st.heap[ref.cell] = na
            cst.heap[ref.cell] = na
        # result
        res = sub.fresh_result(callee, cst)
        extra = {"result": res} if res is not None else {}
        for f in cst.pc[len(st.pc):]:
            st.assume(f)
        cst.pc = st.pc
        for e in callee.ensures:
            g = sub.spec_bool(e, cst, extra)
            st.assume(g)
        for k, v in cst.heap.items():
            if k not in st.heap:
                st.heap[k] = v
        self.used_axioms |= set(callee.axioms) | sub.used_axioms
        if callee.raises and not spec:
            # a callee that may raise: propagate as raise obligations in the caller
            for exc, cond in callee.raises.items():
                c = sub.spec_bool(cond, sub.entry_view(cst))
                self.raise_if(st, c, exc, n)
        return res if res is not None else VNone()

    def check_type(self, v, ty, st, nm, n):
        ok = True
        if ty == "int":
            ok = isinstance(v, (VInt, VBool))
        elif ty == "float":
            ok = is_num(v)
            if isinstance(v, (VInt, VBool)):
                st.env[nm] = VFloat(to_float(v))
        elif ty == "bool":
            ok = isinstance(v, (VBool, VInt))
            if isinstance(v, VInt):
                st.env[nm] = VBool(v.t != 0)
        elif ty[0] in "fib" and ty[1:].isdigit():
            ok = isinstance(v, VRef)
            if ok:
                a = st.heap[v.cell]
                if a.ndim != int(ty[1:]):
                    ok = False
                elif a.et != ty[0]:
                    if ty[0] == "f":
                        st.env[nm] = self.astype(v, "f", st, n)
                    else:
                        ok = False
        if not ok:
            raise Unsupported("argument %s=%r does not match declared type %s" % (nm, v, ty), n)

    def fresh_result(self, callee, cst):
        r = callee.result
        if r is None:
            return None

        def mk(ty, base):
            if ty == "int":
                return fresh_scalar(base, "i")
            if ty == "float":
                return fresh_scalar(base, "f")
            if ty == "bool":
                return fresh_scalar(base, "b")
            if ty[0] in "fib" and ty[1:].isdigit():
                nd = int(ty[1:])
                if callee.result_shape and not isinstance(r, tuple):
                    shp = self.spec(callee.result_shape, cst)
                    shape = [to_int(i) for i in shp.items]
                else:
                    shape = [z3.Int(fresh_name(base + ".shape")) for _ in range(nd)]
                    for s in shape:
                        cst.pc.append(s >= 0)
                cell = new_cell("res")
                cst.heap[cell] = ArrData(fresh_array(base, ty[0], nd), shape, ty[0], frozenset(), True)
                return VRef(cell)
            raise Unsupported("result type %s" % ty)
        base = "r_" + callee.qualname.split(".")[-1]
        if isinstance(r, tuple):
            return VTuple([mk(t, base) for t in r])
        return mk(r, base)

    def inline_call(self, callee, bound, st, n, spec):
        sub = Executor(callee, self.specmod)
        sub.defs = self.defs
        sub.obls = self.obls
        sub.suppress = self.suppress
        sub.counter = self.counter
        fnode = sub.fnode
        if fnode is None:
            raise ContractMismatch("function %s not found" % callee.key)
        names = [a.arg for a in fnode.args.args]
        cst = st.fork()
        cst.env = {}
        for nm in names:
            if nm not in bound:
                raise Unsupported("inline call: missing argument %s" % nm, n)
            cst.env[nm] = bound[nm]
        cst.guards = list(st.guards)
        cst.status = "run"
        outs = sub.exec_block(fnode.body, cst, spec=spec)
        self.used_axioms |= sub.used_axioms
        rets = []
        for o in outs:
            if o.status == "return":
                rets.append(o)
            elif o.status == "run":
                o.ret = VNone()
                rets.append(o)
            else:
                raise Unsupported("inline callee path ends with %s" % o.status, n)
        if len(rets) == 1:
            o = rets[0]
            st.pc = o.pc
            st.heap = o.heap
            return o.ret
        base = len(st.pc)
        res = rets[-1].ret
        heap = rets[-1].heap
        for o in reversed(rets[:-1]):
            cond = z3.And(*o.pc[base:]) if len(o.pc) > base else z3.BoolVal(True)
            res = merge_values(cond, o.ret, res)
            if res is None or o.heap is not heap and any(o.heap.get(k) is not heap.get(k) for k in heap):
                raise Unsupported("inline callee with several effectful paths", n)
        return res

    # ------------------------------------------------------------------ statements
    def exec_block(self, stmts, st, spec=False):
        states = [st]
        for s in stmts:
            nxt = []
            for cur in states:
                if cur.status != "run":
                    nxt.append(cur)
                    continue
                nxt.extend(self.exec_stmt(s, cur, spec))
            states = nxt
            self.npaths = max(self.npaths, len(states))
            if len(states) > self.max_paths:
                raise Unsupported("path explosion (%d states)" % len(states), s)
        return states

    def exec_stmt(self, s, st, spec=False):
        m = getattr(self, "st_" + type(s).__name__, None)
        if m is None:
            raise Unsupported("statement %s" % type(s).__name__, s)
        return m(s, st, spec)

    def st_Pass(self, s, st, spec):
        return [st]

    def st_Expr(self, s, st, spec):
        if isinstance(s.value, ast.Constant):
            return [st]
        v = s.value
        if isinstance(v, ast.Call) and isinstance(v.func, ast.Attribute) and v.func.attr == "append" and \
                isinstance(v.func.value, ast.Subscript) and isinstance(v.func.value.value, ast.Name) and \
                isinstance(st.env.get(v.func.value.value.id), VOpaque) and len(v.args) == 1:
            # D[key].append(x) on an opaque dict of lists: D := append(D, key, x)   (uninterpreted update)
            nm = v.func.value.value.id
            key = self.ev(v.func.value.slice, st, spec)
            val = self.ev(v.args[0], st, spec)
            kt = key.t if isinstance(key, (VFloat, VInt)) else z3.StringVal(key.s) if isinstance(key, VStr) else None
            vt = val.t if isinstance(val, (VFloat, VInt)) else None
            if kt is None or vt is None:
                raise Unsupported("dict append with key/value %r %r" % (key, val), s)
            f = z3.Function("dict_append_%s_%s" % (kt.sort(), vt.sort()), VOpaque.SORT, kt.sort(), vt.sort(), VOpaque.SORT)
            if nm in self.c.params and nm not in self.c.modifies:
                self.oblige(st, "frame", "%s@%s" % (nm, self.line_tag(s)), z3.BoolVal(False), s, desc="write to parameter %s not in modifies" % nm)
            st.env[nm] = VOpaque(f(st.env[nm].t, kt, vt))
            return [st]
        self.ev(s.value, st, spec)
        return [st]

    def st_FunctionDef(self, s, st, spec):
        st.env[s.name] = VFunc("local:" + s.name)
        return [st]

    def st_Return(self, s, st, spec):
        st.ret = self.ev(s.value, st, spec) if s.value is not None else VNone()
        st.status = "return"
        return [st]

    def st_Break(self, s, st, spec):
        st.status = "break"
        return [st]

    def st_Continue(self, s, st, spec):
        st.status = "continue"
        return [st]

    def st_Assert(self, s, st, spec):
        c = to_bool(self.ev(s.test, st, spec), s)
        self.oblige(st, "assert", self.line_tag(s), c, s)
        st.assume(c)
        return [st]

    def st_Raise(self, s, st, spec):
        exc = "Exception"
        if s.exc is not None:
            e = s.exc
            if isinstance(e, ast.Call):
                e = e.func
            if isinstance(e, ast.Name):
                exc = e.id
        self.raise_if(st, z3.BoolVal(True), exc, s)
        st.status = "raise"
        st.exc = exc
        return []     # path ends (raise_if assumed False)

    def assign(self, target, v, st, node, spec):
        if isinstance(target, ast.Name):
            st.env[target.id] = v
        elif isinstance(target, (ast.Tuple, ast.List)):
            if not isinstance(v, VTuple) or len(v.items) != len(target.elts):
                raise Unsupported("tuple unpacking of %r" % (v,), node)
            for t, x in zip(target.elts, v.items):
                self.assign(t, x, st, node, spec)
        elif isinstance(target, ast.Subscript):
            self.store(target, v, st, node, spec)
        else:
            raise Unsupported("assignment target", node)

    def store(self, target, v, st, node, spec):
        if isinstance(target.value, ast.Subscript) and not isinstance(target.slice, (ast.Slice, ast.Tuple)) and \
                not isinstance(target.value.slice, (ast.Slice, ast.Tuple)):
            # a[i][j] = v  ==  a[i, j] = v for a 2-D array
            flat = ast.Subscript(value=target.value.value, slice=ast.Tuple(elts=[target.value.slice, target.slice], ctx=ast.Load()),
                                 ctx=ast.Store())
            ast.copy_location(flat, target)
            ast.fix_missing_locations(flat)
            return self.store(flat, v, st, node, spec)
        base = self.ev(target.value, st, spec)
        v = self.unopt(v, st, node, spec)
        if not isinstance(base, VRef):
            raise Unsupported("store into %r" % (base,), node)
        a = st.heap[base.cell]
        sl = target.slice
        idx_nodes = sl.elts if isinstance(sl, ast.Tuple) else [sl]
        if len(idx_nodes) == 1 and isinstance(idx_nodes[0], ast.Slice):
            s0 = idx_nodes[0]
            if s0.lower is None and s0.upper is None and s0.step is None:
                # a[:] = scalar
                if isinstance(v, VRef):
                    raise Unsupported("a[:] = array", node)
                if a.et != "f" and isinstance(v, VFloat):
                    raise Unsupported("a[:] = float into non-float array", node)
                ev_ = self.unwrap_elem(a, v, node)
                self.note_write(st, base, node)
                st.heap[base.cell] = a.with_elems(const_array(a.et, a.ndim, ev_))
                return
        if any(isinstance(e, ast.Slice) for e in idx_nodes):
            return self.slice_store(base, a, idx_nodes, v, st, node, spec)
        idx_vals = [self.ev(e, st, spec) for e in idx_nodes]
        if len(idx_vals) == 1 and isinstance(idx_vals[0], VTuple):
            idx_vals = idx_vals[0].items
        if len(idx_vals) == 1 and a.ndim == 2 and isinstance(v, VRef) and st.heap[v.cell].ndim == 1:
            # a[i] = row: every element of row i is replaced
            src = st.heap[v.cell]
            if not spec:
                self.oblige(st, "shape", "%s.rowlen" % self.line_tag(node), src.shape[0] == a.shape[1], node, desc="the stored row has the row length")
            (ri,) = self.index_terms(ArrData(None, a.shape[:1], a.et), idx_vals, st, node, spec)
            p_, q_ = z3.Int(fresh_name("rs")), z3.Int(fresh_name("rt"))
            named = fresh_array("rowstored", a.et, 2)
            st.assume(z3.ForAll([p_, q_], z3.Select(z3.Select(named, p_), q_) ==
                                z3.If(p_ == ri, src.select([q_]), a.select([p_, q_])),
                                patterns=[z3.Select(z3.Select(named, p_), q_)]))
            self.note_write(st, base, node)
            st.heap[base.cell] = a.with_elems(named)
            return
        if len(idx_vals) != a.ndim:
            raise Unsupported("partial-index store", node)
        idx = self.index_terms(a, idx_vals, st, node, spec)
        self.note_write(st, base, node)
        if a.et == "i" and isinstance(v, VFloat):
            # float stored into an integer array truncates (only exact integral values arise in scope)
            v = self.float_to_int(v, st, node, spec)
        st.heap[base.cell] = a.store(idx, self.unwrap_elem(a, v, node))

    def slice_store(self, base, a, idx_nodes, v, st, node, spec):
        """a[<sel0>, <sel1>] = scalar where each selector is ':' or a tuple of integer constants / an index"""
        if a.ndim == 1 and len(idx_nodes) == 1 and isinstance(idx_nodes[0], ast.Slice) and idx_nodes[0].step is None:
            # a[lo:hi] = scalar | 1-D array of that length (non-negative bounds, clamped to the length as Python does)
            sl = idx_nodes[0]
            n_ = a.shape[0]
            lo = to_int(self.ev(sl.lower, st, spec), node) if sl.lower is not None else z3.IntVal(0)
            hi = to_int(self.ev(sl.upper, st, spec), node) if sl.upper is not None else n_
            if not spec:
                self.oblige(st, "index", "%s.slice" % self.line_tag(node), z3.And(lo >= 0, hi >= 0), node, desc="slice bounds are non-negative")
            lo_c = z3.If(lo > n_, n_, lo)
            hi_c = z3.If(hi > n_, n_, hi)
            i = z3.Int(fresh_name("s"))
            inside = z3.And(i >= lo_c, i < hi_c)
            if isinstance(v, VRef):
                src = st.heap[v.cell]
                if src.ndim != 1:
                    raise Unsupported("slice store of an n-d array", node)
                if not spec:
                    self.oblige(st, "shape", "%s.slicelen" % self.line_tag(node),
                                src.shape[0] == z3.If(hi_c > lo_c, hi_c - lo_c, 0), node, desc="the stored array has the slice's length")
                val = self.unwrap_elem(a, self.wrap_elem(src, src.select([i - lo_c])), node)
            else:
                val = self.unwrap_elem(a, v, node)
            self.note_write(st, base, node)
            # a named array with a defining axiom (pattern: its own select) instantiates better than a lambda term
            named = fresh_array("sliced", a.et, 1)
            st.assume(z3.ForAll([i], z3.Select(named, i) == z3.If(inside, val, a.select([i])), patterns=[z3.Select(named, i)]))
            st.heap[base.cell] = a.with_elems(named)
            return
        if isinstance(v, VRef) or len(idx_nodes) != a.ndim:
            raise Unsupported("slice store of array / partial", node)
        bound = [z3.Int(fresh_name("s")) for _ in range(a.ndim)]
        conds = []
        for k, e in enumerate(idx_nodes):
            if isinstance(e, ast.Slice):
                if e.lower is not None or e.upper is not None or e.step is not None:
                    raise Unsupported("bounded slice store", node)
                continue
            iv = self.ev(e, st, spec)
            items = iv.items if isinstance(iv, VTuple) else [iv]
            terms = self.index_terms_multi(a, k, items, st, node, spec)
            conds.append(z3.Or(*[bound[k] == t for t in terms]))
        self.note_write(st, base, node)
        val = self.unwrap_elem(a, v, node)
        body = z3.If(z3.And(*conds) if conds else z3.BoolVal(True), val, a.select(bound))
        t = body
        for k in reversed(range(a.ndim)):
            t = z3.Lambda([bound[k]], t)
        st.heap[base.cell] = a.with_elems(t)

    def index_terms_multi(self, a, k, items, st, node, spec):
        out = []
        n = a.shape[k]
        for iv in items:
            i = to_int(iv, node)
            isimp = z3.simplify(i)
            if z3.is_int_value(isimp) and isimp.as_long() < 0:
                if not spec:
                    self.oblige(st, "index", "%s.%d" % (self.line_tag(node), k), -i <= n, node)
                out.append(n + i)
            else:
                if not spec:
                    self.oblige(st, "index", "%s.%d" % (self.line_tag(node), k), z3.And(i >= 0, i < n), node)
                out.append(i)
        return out

    def st_Assign(self, s, st, spec):
        v = self.ev(s.value, st, spec)
        for t in s.targets:
            self.assign(t, v, st, s, spec)
        if not spec and self.c.ghost.get("after_assign"):
            for t in s.targets:
                st = self.ghost_after(t, s, st, ast.unparse(s.value))
        return [st]

    def ghost_after(self, t, s, st, value_src=None):
        """ghost statements hooked after an assignment to `t` (key: the assigned name, or 'name<-value source')"""
        b = t
        while isinstance(b, ast.Subscript):
            b = b.value
        if not isinstance(b, ast.Name):
            return st
        hooks = self.c.ghost.get("after_assign", {})
        for key in (b.id, "%s<-%s" % (b.id, value_src)):
            for src in hooks.get(key, ()):
                for g in ast.parse(src).body:
                    ast.increment_lineno(g, s.lineno - 1)
                    # ghost assertions / assignments are specifications (quantifiers, wpos, at_entry allowed; no index obligations)
                    sp = isinstance(g, ast.Assert) or self.c.options.get("ghost_spec_mode", False)
                    outs = self.exec_stmt(g, st, sp)
                    if len(outs) != 1:
                        raise Unsupported("ghost statement forks", s)
                    st = outs[0]
        return st

    def st_AnnAssign(self, s, st, spec):
        if s.value is not None:
            self.assign(s.target, self.ev(s.value, st, spec), st, s, spec)
        return [st]

    def st_AugAssign(self, s, st, spec):
        if isinstance(s.target, ast.Name):
            cur = self.ev(ast.Name(id=s.target.id, ctx=ast.Load(), lineno=s.lineno), st, spec)
        else:
            load = copy.copy(s.target)
            load.ctx = ast.Load()
            self.suppress += 1      # the index obligations are generated once, by the store
            try:
                cur = self.ev(load, st, spec)
            finally:
                self.suppress -= 1
        v = self.ev(s.value, st, spec)
        r = self.arith(s.op, cur, v, st, s, spec)
        self.assign(s.target, r, st, s, spec)
        if not spec and self.c.ghost.get("after_assign"):
            st = self.ghost_after(s.target, s, st, "<aug>")
        return [st]

    def known_positive(self, st, y):
        """y > 0 follows from the quantifier-free facts of the path (cached per term): lets `%` be plain SMT mod"""
        cache = self.__dict__.setdefault("_pos_cache", {})
        key = (y.get_id(), hash(tuple(h.get_id() for h in st.pc)))
        if key not in cache:
            sv = z3.Solver()
            sv.set("timeout", 300)
            for h in st.pc:
                if not z3.is_quantifier(h):
                    sv.add(h)
            sv.add(y <= 0)
            try:
                cache[key] = sv.check() == z3.unsat
            except z3.Z3Exception:
                cache[key] = False
        return cache[key]

    def feasible(self, st, cond):
        c = z3.simplify(cond)
        if z3.is_false(c):
            return False
        if not self.prune:
            return True
        if z3.is_true(c):
            return True
        # cheap syntactic check only; full feasibility is left to the obligations
        s = z3.Solver()
        s.set("timeout", 150)
        for h in st.pc[-40:]:
            if not z3.is_quantifier(h):
                s.add(h)
        s.add(c)
        try:
            r = s.check()
        except z3.Z3Exception:
            return True
        return r != z3.unsat

    def st_If(self, s, st, spec):
        c = to_bool(self.ev(s.test, st, spec), s.test)
        base = len(st.pc)
        outs = []
        t_states, f_states = [], []
        if self.feasible(st, c):
            a = st.fork()
            a.pc.append(c)
            t_states = self.exec_block(s.body, a, spec)
        nc = z3.Not(c)
        if self.feasible(st, nc):
            b = st.fork()
            b.pc.append(nc)
            f_states = self.exec_block(s.orelse, b, spec) if s.orelse else [b]
        tr = [x for x in t_states if x.status == "run"]
        fr = [x for x in f_states if x.status == "run"]
        if len(tr) == 1 and len(fr) == 1 and not spec:
            # strip the branch condition itself before merging
            s1, s2 = tr[0], fr[0]
            s1.pc = s1.pc[:base] + s1.pc[base + 1:]
            s2.pc = s2.pc[:base] + s2.pc[base + 1:]
            m = merge_states(c, s1, s2, base)
            if m is not None:
                outs.append(m)
                outs.extend(x for x in t_states if x.status != "run")
                outs.extend(x for x in f_states if x.status != "run")
                return outs
            s1.pc.insert(base, c)
            s2.pc.insert(base, nc)
        return t_states + f_states

    # ---- loops
    def loop_ordinal(self, node):
        for k, l in enumerate(self.loop_nodes):
            if l is node:
                return k
        raise Unsupported("loop not found", node)

    def st_For(self, s, st, spec):
        if spec:
            raise Unsupported("loop in spec function", s)
        k = self.loop_ordinal(s)
        ls = self.c.loops.get(k)
        it = s.iter
        # iteration domain
        hidden_arr = None
        enum_index_name = None
        if isinstance(it, ast.Call) and isinstance(it.func, ast.Name) and it.func.id in ("range", "prange"):
            rargs = [to_int(self.ev(a, st, spec), a) for a in it.args]
            if len(rargs) == 1:
                lo, hi, step = z3.IntVal(0), rargs[0], 1
            elif len(rargs) == 2:
                lo, hi, step = rargs[0], rargs[1], 1
            else:
                lo, hi = rargs[0], rargs[1]
                stp = z3.simplify(rargs[2])
                if not z3.is_int_value(stp):
                    # symbolic step: must be +1 or -1 (obligation), iteration by counter
                    self.oblige(st, "assert", "%s.step" % self.line_tag(s), z3.Or(rargs[2] == 1, rargs[2] == -1), s,
                                desc="range step is +1 or -1")
                    st.assume(z3.Or(rargs[2] == 1, rargs[2] == -1))
                    step = rargs[2]
                else:
                    step = stp.as_long()
            if isinstance(step, int) and abs(step) != 1:
                raise Unsupported("range step %s" % step, s)
            target = s.target
        else:
            if isinstance(it, ast.Call) and isinstance(it.func, ast.Name) and it.func.id == "zip" and ls is not None and \
                    isinstance(s.target, ast.Tuple) and len(s.target.elts) == len(it.args):
                return self.zip_loop(s, k, ls, st, it, spec)
            enum = isinstance(it, ast.Call) and isinstance(it.func, ast.Name) and it.func.id == "enumerate" and len(it.args) == 1
            enum_index_name = None
            coll = self.ev(it.args[0] if enum else it, st, spec)
            if isinstance(coll, VTuple) and not enum:
                return self.unroll_for(s, coll.items, st, spec)
            if isinstance(coll, VRef) and (st.heap[coll.cell].ndim == 1 or (st.heap[coll.cell].ndim == 2 and not enum)):
                hidden_arr = coll
                lo, hi, step = z3.IntVal(0), st.heap[coll.cell].shape[0], 1
                target = s.target
                if enum:
                    if not (isinstance(target, ast.Tuple) and len(target.elts) == 2 and isinstance(target.elts[0], ast.Name)):
                        raise Unsupported("enumerate target", s)
                    enum_index_name = target.elts[0].id
                    target = target.elts[1]
            else:
                raise Unsupported("for over %r" % (coll,), s)
        if ls is None:
            # constant small ranges may be unrolled
            lo_s, hi_s = z3.simplify(lo), z3.simplify(hi)
            if z3.is_int_value(lo_s) and z3.is_int_value(hi_s) and hidden_arr is None and \
                    abs(hi_s.as_long() - lo_s.as_long()) <= 16:
                vals = list(range(lo_s.as_long(), hi_s.as_long(), step if isinstance(step, int) else 1))
                return self.unroll_for(s, [VInt(v) for v in vals], st, spec)
            raise ContractMismatch("loop #%d (line %d) of %s has no invariant" % (k, s.lineno, self.c.key))
        if ls.kind != "for":
            raise ContractMismatch("loop #%d of %s: contract expects %s, code has for" % (k, self.c.key, ls.kind))
        ivar_name = ls.index if hidden_arr is not None else (target.id if isinstance(target, ast.Name) else None)
        if hidden_arr is not None and enum_index_name is not None:
            ivar_name = enum_index_name
        if ivar_name is None:
            raise Unsupported("for target", s)

        def bind(state, iv):
            state.env[ivar_name] = VInt(iv)
            if hidden_arr is not None:
                a = state.heap[hidden_arr.cell]
                if a.ndim == 1:
                    self.assign(target, self.wrap_elem(a, a.select([iv])), state, s, spec)
                else:
                    # iterating a list of rows: the loop variable is the row
                    cell = new_cell("row")
                    state.heap[cell] = ArrData(a.select([iv]), a.shape[1:], a.et, a.roots, False)
                    self.assign(target, VRef(cell), state, s, spec)

        # iteration counter semantics: i runs lo, lo+step, ... while (step>0 ? i<hi : i>hi)
        if isinstance(step, int) and step == 1:
            end = z3.If(hi > lo, hi, lo)
            in_range = lambda i: z3.And(i >= lo, i <= end)
            guard = lambda i: i < hi
        elif isinstance(step, int):
            end = z3.If(hi < lo, hi, lo)
            in_range = lambda i: z3.And(i <= lo, i >= end)
            guard = lambda i: i > hi
        else:
            # step is a term known to be +-1: the loop variable moves from lo towards hi
            fwd = step == 1
            end = z3.If(fwd, z3.If(hi > lo, hi, lo), z3.If(hi < lo, hi, lo))
            in_range = lambda i: z3.If(fwd, z3.And(i >= lo, i <= end), z3.And(i <= lo, i >= end))
            guard = lambda i: z3.If(fwd, i < hi, i > hi)
        return self.cut_loop(s, k, ls, st, bind, lo, step, in_range, guard, spec)

    def zip_loop(self, s, k, ls, st, it, spec):
        """for a, b in zip(A, B) over arrays / lists: index loop over the common length (obligation: equal lengths)"""
        colls = [self.ev(a, st, spec) for a in it.args]
        if not all(isinstance(c, VRef) for c in colls):
            raise Unsupported("zip over non-arrays", s)
        lens = [st.heap[c.cell].shape[0] for c in colls]
        for ln in lens[1:]:
            self.oblige(st, "assert", "%s.ziplen" % self.line_tag(s), ln == lens[0], s, desc="zip operands have equal length")
        if ls.index is None:
            raise ContractMismatch("loop #%d of %s iterates zip(...): the contract must name the index" % (k, self.c.key))
        lo, hi = z3.IntVal(0), lens[0]

        def bind(state, iv):
            state.env[ls.index] = VInt(iv)
            for t, c in zip(s.target.elts, colls):
                a = state.heap[c.cell]
                if a.ndim == 1:
                    self.assign(t, self.wrap_elem(a, a.select([iv])), state, s, spec)
                else:
                    cell = new_cell("row")
                    state.heap[cell] = ArrData(a.select([iv]), a.shape[1:], a.et, a.roots, False)
                    self.assign(t, VRef(cell), state, s, spec)
        end = z3.If(hi > lo, hi, lo)
        return self.cut_loop(s, k, ls, st, bind, lo, 1, lambda i: z3.And(i >= lo, i <= end), lambda i: i < hi, spec)

    def unroll_for(self, s, items, st, spec):
        states = [st]
        done = []
        for it in items:
            nxt = []
            for cur in states:
                self.assign(s.target, it, cur, s, spec)
                for o in self.exec_block(s.body, cur, spec):
                    if o.status in ("run", "continue"):
                        o.status = "run"
                        nxt.append(o)
                    elif o.status == "break":
                        o.status = "run"
                        done.append(o)
                    else:
                        done.append(o)
            states = nxt
        return states + done

    def st_While(self, s, st, spec):
        if spec:
            raise Unsupported("loop in spec function", s)
        k = self.loop_ordinal(s)
        ls = self.c.loops.get(k)
        if ls is None:
            raise ContractMismatch("loop #%d (line %d) of %s has no invariant" % (k, s.lineno, self.c.key))
        if ls.kind != "while":
            raise ContractMismatch("loop #%d of %s: contract expects %s, code has while" % (k, self.c.key, ls.kind))
        return self.cut_loop(s, k, ls, st, None, None, None, None, None, spec)

    def probe_types(self, s, st, bind, lo):
        """run the body once with obligations suppressed to learn the types of loop-assigned names"""
        p = st.fork()
        self.suppress += 1
        saved = self.prune
        self.prune = False
        try:
            if bind is not None:
                bind(p, z3.Int(fresh_name("probe")))
            try:
                outs = self.exec_block(s.body, p, False)
            except ContractMismatch:
                raise
        finally:
            self.suppress -= 1
            self.prune = saved
        return outs

    def havoc(self, st, s, ls, probe_states):
        names, stores, calls = assigned_names(s.body)
        names |= set(ls.modifies_extra)
        # ghost statements hooked on an assignment that occurs in this loop body write ghost variables / ghost arrays too
        for key, srcs in self.c.ghost.get("after_assign", {}).items():
            base = key.split("<-")[0]
            if base in names or base in stores:
                for src in srcs:
                    try:
                        gn, gs_, _ = assigned_names(ast.parse(src).body)
                    except SyntaxError:
                        continue
                    names |= gn
                    stores |= gs_
        appended = set()
        # arrays modified through calls with a modifies clause
        for c in calls:
            f = c.func
            fname = f.id if isinstance(f, ast.Name) else None
            if fname is None:
                continue
            callee = REGISTRY.get((self.c.module, fname)) or REGISTRY.get((self.c.module, self.c.qualname + "." + fname))
            if callee is None and fname in self.mod.imports and self.mod.imports[fname].startswith("xrspatial."):
                modname, fn = self.mod.imports[fname].rsplit(".", 1)
                callee = REGISTRY.get((modname.replace(".", "/") + ".py", fn))
            if callee is not None and callee.modifies:
                pn = list(callee.params)
                for m in callee.modifies:
                    if m not in pn:
                        # a ghost parameter of the callee: bound to the caller's ghost state of the same name
                        stores.add(m)
                        continue
                    k = pn.index(m)
                    if k < len(c.args) and isinstance(c.args[k], ast.Name):
                        stores.add(c.args[k].id)
                    for kw in c.keywords:
                        if kw.arg == m and isinstance(kw.value, ast.Name):
                            stores.add(kw.value.id)
        # method calls that write in place
        for c in calls:
            if isinstance(c.func, ast.Attribute) and c.func.attr in ("fill", "sort", "append") and isinstance(c.func.value, ast.Name):
                stores.add(c.func.value.id)
                if c.func.attr == "append":
                    appended.add(c.func.value.id)
        for nm in sorted(names):
            cands = [p.env[nm] for p in probe_states if nm in p.env]
            if nm in st.env:
                cands.append(st.env[nm])
            if not cands:
                continue
            if nm in self.c.types:
                kind = self.c.types[nm]
                st.env[nm] = fresh_scalar(nm, {"int": "i", "float": "f", "bool": "b"}[kind])
                continue
            if any(isinstance(c, (VNone, VOpt)) for c in cands):
                inner = [c.inner if isinstance(c, VOpt) else c for c in cands if not isinstance(c, VNone)]
                if not inner:
                    continue        # None throughout
                if not all(is_num(c) for c in inner):
                    raise Unsupported("loop-assigned %s is None or a non-number" % nm, s)
                kind = "f" if any(isinstance(c, VFloat) for c in inner) else ("b" if all(isinstance(c, VBool) for c in inner) else "i")
                st.env[nm] = VOpt(z3.Bool(fresh_name(nm + ".isnone")), fresh_scalar(nm, kind))
            elif any(isinstance(c, VFloat) for c in cands) and all(is_num(c) for c in cands):
                st.env[nm] = fresh_scalar(nm, "f")
            elif all(isinstance(c, VInt) for c in cands):
                st.env[nm] = fresh_scalar(nm, "i")
            elif all(isinstance(c, VBool) for c in cands):
                st.env[nm] = fresh_scalar(nm, "b")
            elif all(isinstance(c, (VInt, VBool)) for c in cands):
                st.env[nm] = fresh_scalar(nm, "i")
            elif all(isinstance(c, VRef) for c in cands):
                # array (re)allocated in the loop: keep a reference to a havocked array of the same type
                c0 = cands[0]
                src = None
                for p in probe_states:
                    if nm in p.env and p.env[nm].cell in p.heap:
                        src = p.heap[p.env[nm].cell]
                if src is None:
                    src = st.heap[c0.cell]
                if nm in st.env and all(c.cell == st.env[nm].cell for c in cands):
                    continue    # same cell: content havoc handled by stores
                cell = new_cell("hv_" + nm)
                shape = [z3.Int(fresh_name(nm + ".shape")) for _ in range(src.ndim)]
                st.heap[cell] = ArrData(fresh_array(nm, src.et, src.ndim), shape, src.et, frozenset(), True)
                for sh in shape:
                    st.pc.append(sh >= 0)
                st.env[nm] = VRef(cell)
            elif all(isinstance(c, VTuple) for c in cands):
                raise Unsupported("tuple-valued loop variable %s" % nm, s)
            else:
                raise Unsupported("cannot infer type of loop-assigned %s: %r" % (nm, cands), s)
        for nm in sorted(stores):
            if nm in st.env and isinstance(st.env[nm], VRef):
                cell = st.env[nm].cell
                a = st.heap[cell]
                st.heap[cell] = a.with_elems(fresh_array("hv_" + nm, a.et, a.ndim))
                if nm in appended:
                    ln = z3.Int(fresh_name(nm + ".len"))
                    st.pc.append(ln >= 0)
                    na = ArrData(st.heap[cell].elems, [ln], a.et, a.roots, a.fresh)
                    na.is_list = True
                    st.heap[cell] = na

    def cut_loop(self, s, k, ls, st, bind, lo, step, in_range, guard, spec):
        is_for = isinstance(s, ast.For)
        tag = "loop%d" % k
        # 1. invariant on entry
        e = st.fork()
        if is_for:
            bind(e, lo)
        pre_loop = st.fork()          # for at_entry() inside invariants: state before the loop
        st.loop_pre = dict(st.loop_pre)
        st.loop_pre[k] = pre_loop
        e.loop_pre = dict(st.loop_pre)
        for j, inv in enumerate(ls.inv):
            g = self.spec_bool(inv, e)
            self.oblige(e, "inv-init", "%s.inv%d" % (tag, j), g, s, desc=inv)
        # 2. arbitrary iteration
        probe = self.probe_types(s, st, bind, lo)
        h = st.fork()
        self.havoc(h, s, ls, probe)
        if is_for:
            iv = z3.Int(fresh_name("it"))
            bind(h, iv)
            h.pc.append(in_range(iv))
        for inv in ls.inv:
            h.pc.append(self.spec_bool(inv, h))
        for j, (fact, why) in enumerate(getattr(ls, "assume", ())):
            g = self.spec_bool(fact, h)
            h.pc.append(g)
            o = self.oblige(h, "assumed", "%s.assume%d" % (tag, j), z3.BoolVal(True), s, desc=fact)
            if o is not None:
                o.assumed = why
        exits = []
        # normal exit state
        x = h.fork()
        if is_for:
            x.pc.append(z3.Not(guard(iv)))
            if isinstance(s.target, ast.Name) and ls.index is None:
                # python leaves the last iterated value in the variable; over-approximate
                x.env[s.target.id] = fresh_scalar(s.target.id, "i")
            x_states = [x]
        else:
            c = to_bool(self.ev(s.test, x, spec), s.test)
            x.pc.append(z3.Not(c))
            x_states = [x] if not z3.is_true(z3.simplify(c)) else []
        # body
        b = h.fork()
        if is_for:
            b.pc.append(guard(iv))
        else:
            c = to_bool(self.ev(s.test, b, spec), s.test)
            b.pc.append(c)
        dec0 = None
        if ls.decreases:
            dec0 = to_int(self.spec(ls.decreases, b))
            self.oblige(b, "decreases", "%s.bounded" % tag, dec0 >= 0, s, desc="variant %s >= 0" % ls.decreases)
        outs = self.exec_block(s.body, b, spec)
        passthru = []
        for o in outs:
            if o.status in ("run", "continue"):
                o.status = "run"
                for j, cexpr in enumerate(ls.cut):
                    g = self.spec_bool(cexpr, o)
                    self.oblige(o, "cut", "%s.cut%d" % (tag, j), g, s, desc=cexpr)
                    o.pc.append(g)
                nxt = o.fork()
                if is_for:
                    bind(nxt, iv + step)
                for j, inv in enumerate(ls.inv):
                    g = self.spec_bool(inv, nxt)
                    self.oblige(nxt, "inv-preserve", "%s.inv%d" % (tag, j), g, s, desc=inv)
                if dec0 is not None:
                    d1 = to_int(self.spec(ls.decreases, nxt))
                    self.oblige(nxt, "decreases", "%s.strict" % tag, d1 < dec0, s, desc="variant decreases")
            elif o.status == "break":
                o.status = "run"
                # the cut assertions are facts about the body just executed: they hold (are proved) on leaving it by break as well
                for j, cexpr in enumerate(ls.cut):
                    g = self.spec_bool(cexpr, o)
                    self.oblige(o, "cut", "%s.cut%d@break" % (tag, j), g, s, desc=cexpr)
                    o.pc.append(g)
                x_states.append(o)
            else:
                passthru.append(o)
        if s.orelse:
            raise Unsupported("loop else", s)
        if ls.post is not None:
            for xs in x_states:
                for j, p in enumerate(ls.post):
                    g = self.spec_bool(p, xs)
                    self.oblige(xs, "loop-post", "%s.post%d" % (tag, j), g, s, desc=p)
            a = st.fork()
            self.havoc(a, s, ls, probe)
            if is_for and isinstance(s.target, ast.Name):
                a.env[s.target.id] = fresh_scalar(s.target.id, "i")
            for p in ls.post:
                a.pc.append(self.spec_bool(p, a))
            return [a] + passthru
        return x_states + passthru

    # ------------------------------------------------------------------ driver
    def run(self):
        if self.fnode is None:
            raise ContractMismatch("function %s not found in %s" % (self.c.qualname, self.c.module))
        argnames = [a.arg for a in self.fnode.args.args]
        declared = list(self.c.params)
        if argnames != declared:
            raise ContractMismatch("signature of %s is %s, contract declares %s" % (self.c.key, argnames, declared))
        nloops = len(self.loop_nodes)
        for k, ls in self.c.loops.items():
            if k >= nloops:
                raise ContractMismatch("contract of %s names loop #%d, function has %d loops" % (self.c.key, k, nloops))
            kind = "for" if isinstance(self.loop_nodes[k], ast.For) else "while"
            if kind != ls.kind:
                raise ContractMismatch("loop #%d of %s is %s, contract says %s" % (k, self.c.key, kind, ls.kind))
        st = self.entry_state()
        for r in self.c.requires:
            st.pc.append(self.spec_bool(r, st))
        # vacuity: the preconditions are satisfiable
        o = Obligation(self.c.key, "reach", "requires-sat", self.fnode.lineno, st.pc, z3.BoolVal(False),
                       "preconditions are satisfiable", expect_sat=True, axioms=())
        self.obls.append(o)
        st.old_heap = dict(st.heap)
        outs = self.exec_block(self.fnode.body, st)
        nret = 0
        for o_ in outs:
            if o_.status == "run":
                o_.ret = VNone()
                o_.status = "return"
            if o_.status != "return":
                continue
            nret += 1
            extra = {"result": o_.ret}
            for nm in getattr(self.c, "options", {}).get("ensures_locals", ()):
                if nm in o_.env:
                    extra[nm] = o_.env[nm]
            # parameters refer to the caller's objects: entry bindings, final heap
            view = o_.fork()
            view.env = dict(o_.entry_env)
            view.guards = []
            for j, e in enumerate(self.c.ensures):
                g = self.spec_bool(e, view, extra)
                self.oblige(view, "ensures", "post%d" % j, g, self.fnode, desc=e)
            # frame: fresh result
        if nret == 0 and self.c.ensures:
            raise ContractMismatch("no returning path in %s" % self.c.key)
        for o_ in self.obls:
            if o_.expect_sat:
                continue
            o_.axioms = tuple(sorted(set(o_.axioms) | self.used_axioms))
        return self.obls


class SpecCtx:
    """evaluate spec functions symbolically outside any function (for lemmas)"""

    def __init__(self, specmod, axioms=()):
        dummy = Contract.__new__(Contract)
        dummy.module = None
        dummy.qualname = "<lemma>"
        dummy.params = {}
        dummy.requires = []
        dummy.ensures = []
        dummy.raises = {}
        dummy.modifies = ()
        dummy.loops = {}
        dummy.lets = []
        dummy.inline = False
        dummy.axioms = tuple(axioms)
        dummy.neg_index = False
        dummy.closure = {}
        dummy.types = {}
        dummy.native = None
        dummy.props = ()
        dummy.options = {}
        dummy.ghost = {}
        dummy.ghost_params = {}
        self.ex = Executor.__new__(Executor)
        self.ex.c = dummy
        self.ex.mod = None
        self.ex.fnode = None
        self.ex.obls = []
        self.ex.suppress = 1
        self.ex.specmod = specmod
        self.ex._spec_funcs = None
        self.ex.loop_nodes = []
        self.ex.counter = {}
        self.ex.notes = []
        self.ex.used_axioms = set(axioms)
        self.ex.prune = False
        self.ex.max_paths = 4000
        self.ex.npaths = 0
        self.ex.defs = {}
        self.st = State()
        self.st.old_heap = {}
        self.st.entry_env = {}

    def array(self, name, et, ndim, shape=None):
        cell = new_cell(name)
        shape = shape or [z3.Int("%s.shape%d" % (name, k)) for k in range(ndim)]
        self.st.heap[cell] = ArrData(z3.Const(name, arr_sort(et, ndim)), shape, et)
        return VRef(cell)

    def array_from(self, elems, et, shape):
        cell = new_cell("arr")
        self.st.heap[cell] = ArrData(elems, shape, et)
        return VRef(cell)

    def elems(self, ref):
        return self.st.heap[ref.cell].elems

    def call(self, name, *args):
        vals = []
        for a in args:
            if isinstance(a, V):
                vals.append(a)
            elif isinstance(a, bool):
                vals.append(VBool(a))
            elif isinstance(a, int):
                vals.append(VInt(a))
            elif isinstance(a, float):
                vals.append(VFloat(xr.const(a)))
            elif z3.is_expr(a) and a.sort() == z3.IntSort():
                vals.append(VInt(a))
            elif z3.is_expr(a) and a.sort() == xr.F:
                vals.append(VFloat(a))
            elif z3.is_expr(a) and a.sort() == z3.BoolSort():
                vals.append(VBool(a))
            else:
                raise Unsupported("spec arg %r" % (a,))
        return self.ex.call_spec(name, vals, self.st, None)

    def expr(self, src, env):
        st = self.st.fork()
        st.env.update(env)
        return self.ex.spec(src, st)

    @property
    def axioms(self):
        return tuple(sorted(self.ex.used_axioms))
