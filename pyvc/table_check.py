"""Dispatch tables (module-level dict literals of lambdas / names): each entry must be the expected expression.
The comparison is on the normalised AST of the real source (ast.unparse), so it holds for every input."""
import ast
import os
from . import REPO


def _norm(src):
    return ast.unparse(ast.parse(src, mode="eval"))


def table_items(pid, tier):
    from .check import Item
    import contracts.tables as ct
    items = []
    cache = {}
    for t in ct.TABLES:
        if pid not in t["props"]:
            continue
        path = os.path.join(REPO, t["module"])
        if path not in cache:
            cache[path] = ast.parse(open(path).read())
        tree = cache[path]
        node = None
        scope = tree.body
        if t.get("function"):
            for n in ast.walk(tree):
                if isinstance(n, ast.FunctionDef) and n.name == t["function"]:
                    scope = list(ast.walk(n))
        for n in scope:
            if isinstance(n, ast.Assign) and any(isinstance(x, ast.Name) and x.id == t["name"] for x in n.targets):
                node = n.value
        key = "%s:%s" % (t["module"].replace("xrspatial/", "").replace(".py", ""), t["name"])

        def add(label, ok, detail="", desc="", line=None):
            items.append(Item("table:%s:wrapper:%s" % (key, label), "proved", "ok" if ok else "failed", 0.0, detail,
                              "pyvc.table_check (normalised AST comparison)", line, desc))
        if node is None:
            add("exists", False, "table %s not found" % t["name"])
            continue
        entries = {}
        if isinstance(node, ast.Call) and isinstance(node.func, ast.Name) and node.func.id == "dict":
            for k in node.keywords:
                entries[k.arg] = k.value
        elif isinstance(node, ast.Dict):
            for k, v in zip(node.keys, node.values):
                entries[ast.literal_eval(k)] = v
        exp = t["entries"]
        add("keys", sorted(map(str, entries)) == sorted(map(str, exp)), "keys %s, expected %s" % (sorted(map(str, entries)), sorted(map(str, exp))),
            "the table has exactly the expected keys", node.lineno)
        for k, e in exp.items():
            if k not in entries:
                continue
            got = ast.unparse(entries[k])
            add("entry.%s" % k, got == _norm(e), "got %s, expected %s" % (got, _norm(e)), "%s[%r] is %s" % (t["name"], k, e), entries[k].lineno)
    return items


def call_items(pid, tier):
    from .check import Item
    import contracts.tables as ct
    items = []
    cache = {}
    for c in ct.CALLS:
        if pid not in c["props"]:
            continue
        path = os.path.join(REPO, c["module"])
        if path not in cache:
            cache[path] = ast.parse(open(path).read())
        fn = next((n for n in ast.walk(cache[path]) if isinstance(n, ast.FunctionDef) and n.name == c["function"]), None)
        key = "%s:%s" % (c["module"].replace("xrspatial/", "").replace(".py", ""), c["function"])
        want = _norm(c["call"])
        ok, detail = False, ""
        if fn is None:
            detail = "function not found"
        elif c["where"].startswith("assign:"):
            tgt = c["where"][7:]
            vals = [ast.unparse(n.value) for n in ast.walk(fn) if isinstance(n, ast.Assign)
                    for t in n.targets for e in (t.elts if isinstance(t, ast.Tuple) else [t]) if ast.unparse(e) == tgt]
            ok = want in vals
            detail = "" if ok else "%s is assigned %s, expected %s" % (tgt, vals, want)
        elif c["where"] == "test":
            tests = [ast.unparse(n.test) for n in ast.walk(fn) if isinstance(n, (ast.If, ast.While, ast.IfExp))]
            ok = want in tests
            detail = "" if ok else "no branch on %s (tests: %s)" % (want, tests)
        elif c["where"] == "return-any":
            rets = [ast.unparse(r.value) for r in ast.walk(fn) if isinstance(r, ast.Return) and r.value is not None]
            ok = want in rets
            detail = "" if ok else "returns %s, none is %s" % (rets, want)
        elif c["where"] == "return":
            rets = [ast.unparse(r.value) for r in ast.walk(fn) if isinstance(r, ast.Return) and r.value is not None]
            ok = rets == [want]
            detail = "returns %s, expected %s" % (rets, want)
        else:
            nodes = fn.body if c["where"] == "toplevel" else list(ast.walk(fn))
            for n in nodes:
                for x in (ast.walk(n) if c["where"] == "toplevel" and isinstance(n, ast.Expr) else [n]):
                    if isinstance(x, ast.Call) and ast.unparse(x) == want:
                        ok = True
            detail = "" if ok else "call %s not found (%s)" % (want, c["where"])
        items.append(Item("table:%s:wrapper:call.%s" % (key, want[:50]), "proved", "ok" if ok else "failed", 0.0, detail,
                          "pyvc.table_check (normalised AST comparison)", getattr(fn, "lineno", None), c["why"]))
    return items
