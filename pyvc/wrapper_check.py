"""Obligations of the public wrappers (Tier W) - see contracts/wrappers.py."""
import ast
import time

from . import frame, wrapper
from .contract import REGISTRY


def _expected(ev, f, src, params):
    env = {p: ("param", p) for p in params}
    return ev.ev(ast.parse(src, mode="eval").body, env, f)


def _is_dataarray(t):
    return t[0] == "call" and t[1][0] == "ext" and t[1][1] in ("xarray.DataArray", "xarray.core.dataarray.DataArray")


def _strip_ite(t):
    """branches of a conditional result"""
    if t[0] == "ite":
        return _strip_ite(t[2]) + _strip_ite(t[3])
    return [t]


def _syntactic_identity(f, raster):
    """fallback for wrappers with loops: the returned value is a DataArray call built from the input's coords/dims/attrs"""
    calls = [x for x in ast.walk(f.node) if isinstance(x, ast.Call) and ast.unparse(x.func) in ("DataArray", "xr.DataArray")]
    rets = [x for x in ast.walk(f.node) if isinstance(x, ast.Return) and x.value is not None]
    if not rets:
        return None
    r = rets[-1].value
    call = None
    if isinstance(r, ast.Call) and r in calls:
        call = r
    elif isinstance(r, ast.Name):
        for x in ast.walk(f.node):
            if isinstance(x, ast.Assign) and any(isinstance(t, ast.Name) and t.id == r.id for t in x.targets) and x.value in calls:
                call = x.value
    if call is None:
        return None
    return {k.arg: ast.unparse(k.value) for k in call.keywords}


def wrapper_items(pid, tier):
    from .check import Item
    import contracts.wrappers as cw
    pkg = frame.Package()
    opaque = {c.key for c in REGISTRY.values()} | {"utils:get_dataarray_resolution", "utils:validate_arrays"} | set(getattr(cw, "OPAQUE_EXTRA", ()))
    items = []
    for w in cw.WRAPPERS:
        if pid not in w["props"]:
            continue
        key = w["key"]
        f = next((g for g in pkg.fns.values() if g.key == key), None)

        def add(label, ok, detail="", desc=""):
            items.append(Item("wrapper:%s:wrapper:%s" % (key, label), "proved", "ok" if ok else "failed", 0.0, detail,
                              "pyvc.wrapper (symbolic term evaluation)", f.node.lineno if f else None, desc))
        if f is None:
            add("exists", False, "public function %s not found" % key)
            continue
        R = w["raster"]
        for be in ("numpy", "dask"):
            exp_src = w.get(be)
            if be == "dask" and exp_src is None and w.get("numpy") is not None and w["identity"] and "C01" not in w["props"]:
                continue
            t0 = time.time()
            try:
                t, ev = wrapper.evaluate_public(pkg, key, be, opaque)
            except wrapper.Raised:
                if be == "dask":
                    continue        # backend not supported by this function (raises NotImplementedError): nothing to check
                add("%s.evaluates" % be, False, "every path raises")
                continue
            except wrapper.WUnsupported as e:
                # loops etc.: syntactic identity only
                if w["identity"] and be == "numpy":
                    kw = _syntactic_identity(f, R)
                    ok = kw is not None and kw.get("coords") == R + ".coords" and kw.get("dims") == R + ".dims" and \
                        kw.get("attrs") == R + ".attrs"
                    add("identity", ok, "syntactic check of the returned DataArray(...): %s (%s)" % (kw, e),
                        "result carries coords/dims/attrs of %s" % R)
                continue
            branches = _strip_ite(t)
            if w["identity"]:
                ok = True
                why = []
                for b in branches:
                    if not _is_dataarray(b):
                        ok = False
                        why.append("result is not a DataArray(...) construction: %s" % wrapper.show(b)[:200])
                        continue
                    exp = {"coords": ("attr", ("param", R), "coords"), "dims": ("attr", ("param", R), "dims")}
                    if w["attrs"] == "same":
                        exp["attrs"] = ("attr", ("param", R), "attrs")
                    for k, v in exp.items():
                        got = wrapper.kwd(b, k)
                        if got != v:
                            ok = False
                            why.append("%s=%s, expected %s" % (k, wrapper.show(got) if got else None, wrapper.show(v)))
                    if w["attrs"] == "deepcopy":
                        got = wrapper.kwd(b, "attrs")
                        if not (got and got[0] == "call" and wrapper.callee_name(got) == "copy.deepcopy" and
                                got[2] == (("attr", ("param", R), "attrs"),)):
                            ok = False
                            why.append("attrs=%s, expected a deep copy of %s.attrs" % (wrapper.show(got) if got else None, R))
                    if w["name_param"] and w["name_param"] in f.params:
                        if wrapper.kwd(b, "name") != ("param", w["name_param"]):
                            ok = False
                            why.append("name is not the `name` argument")
                add("%s.identity" % be, ok, "; ".join(why), "result = DataArray(..., coords/dims/attrs of %s)" % R)
            if exp_src is not None:
                try:
                    e_t = _expected(ev, f, exp_src, f.params)
                except Exception as e:
                    add("%s.kernel" % be, False, "expected term does not evaluate in the wrapper's namespace: %r" % e)
                    continue
                ok = True
                why = []
                for b in branches:
                    data = b[2][0] if (w["identity"] and _is_dataarray(b) and b[2]) else b
                    if w["identity"] and _is_dataarray(b) and not b[2]:
                        data = wrapper.kwd(b, "data")
                    if data != e_t:
                        ok = False
                        why.append("got      %s\nexpected %s" % (wrapper.show(data)[:700], wrapper.show(e_t)[:700]))
                add("%s.kernel" % be, ok, "\n".join(why), "%s path applies %s" % (be, exp_src[:160]))
                if be == "dask":
                    # halo / boundary / laziness, as separately named facts about the actual term
                    ovs = wrapper.find_calls(t, lambda c: wrapper.callee_name(c) == ".map_overlap")
                    halos = w.get("halo") or ()
                    if halos:
                        okh = len(ovs) >= len(halos)
                        whyh = []
                        for c in ovs:
                            depth = wrapper.kwd(c, "depth")
                            bnd = wrapper.kwd(c, "boundary")
                            if bnd != ("ext", "numpy.nan"):
                                okh = False
                                whyh.append("boundary=%s is not NaN" % (wrapper.show(bnd) if bnd else None))
                            exp_depths = [_expected(ev, f, h, f.params) for h in halos]
                            if depth not in exp_depths:
                                okh = False
                                whyh.append("depth=%s is not the stencil radius %s" % (wrapper.show(depth) if depth else None,
                                                                                    [wrapper.show(x) for x in exp_depths]))
                        add("dask.halo", okh, "; ".join(whyh), "map_overlap depth = stencil radius per axis (rows, cols), boundary NaN")
                    eager = wrapper.find_calls(t, lambda c: wrapper.callee_name(c) in (".compute", "numpy.asarray", "numpy.array",
                                                                                        ".persist", "dask.compute"))
                    add("dask.lazy", not eager, "; ".join(wrapper.show(c)[:120] for c in eager), "no compute()/np.asarray on the dask path")
    return items
