"""MANIFEST.setup_cmd: nothing to build - verify the tools the checks need are present."""
import os, shutil, subprocess, sys
ok = True
try:
    import z3
    print("z3 python", z3.get_version_string())
except Exception as e:
    print("missing z3 python api", e); ok = False
for t in ("/usr/bin/cvc5", "/usr/bin/z3", "/venv/bin/python"):
    print(t, "present" if os.path.exists(t) else "MISSING")
    ok = ok and os.path.exists(t)
p = subprocess.run(["/venv/bin/python", "-c", "import numpy, numba, xarray, dask; print('repo interpreter ok', numpy.__version__, numba.__version__)"], capture_output=True, text=True)
print(p.stdout.strip() or p.stderr.strip()[-300:])
ok = ok and p.returncode == 0
os.makedirs(os.path.join(os.path.dirname(os.path.dirname(os.path.abspath(__file__))), "evidence"), exist_ok=True)
sys.exit(0 if ok else 1)
