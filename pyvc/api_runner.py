"""Runs under /venv/bin/python: public-API bounded stand-ins (contracts/bounded_api.py).
usage: api_runner.py <name> <seed> <budget_s> <tier>      -> last stdout line is a JSON result
Replay: api_runner.py --replay <name> <json-case>
"""
import importlib
import json
import os
import sys
import time
import traceback

sys.path.insert(0, os.path.dirname(os.path.dirname(os.path.abspath(__file__))))
sys.path.insert(0, os.environ.get("PYVC_REPO", "/repo"))


def main():
    mod = importlib.import_module("contracts.bounded_api")
    if sys.argv[1] == "--single":
        print("\n" + json.dumps({"digest": mod.run_single(json.loads(sys.argv[2]))}))
        return
    if sys.argv[1] == "--replay":
        name, case = sys.argv[2], json.loads(sys.argv[3])
        fn = getattr(mod, "replay_" + name, None)
        chk = mod.STANDINS[name]
        res = chk.replay(case)
        print("\n" + json.dumps(res, default=str))
        sys.exit(1 if res.get("status") == "fail" else 0)
    name, seed, budget, tier = sys.argv[1], int(sys.argv[2]), float(sys.argv[3]), sys.argv[4]
    chk = mod.STANDINS[name]
    t0 = time.time()
    try:
        res = chk.run(seed, budget, tier)
    except Exception:
        res = {"status": "error", "error": traceback.format_exc()[-3000:]}
    res["wall_s"] = time.time() - t0
    print("\n" + json.dumps(res, default=str))


if __name__ == "__main__":
    main()
