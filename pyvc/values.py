"""Symbolic values of the pyvc executor."""
import itertools
import z3
from . import xr

_ctr = [0]


def reset_names():
    """names are unique per contract; resetting makes an obligation's SMT text (and so the solver's behaviour) independent of
    which other contracts were processed before it"""
    _ctr[0] = 0


def fresh_name(base):
    _ctr[0] += 1
    return "%s!%d" % (base, _ctr[0])


class V:
    pass


class VInt(V):
    def __init__(self, t):
        if isinstance(t, int):
            t = z3.IntVal(t)
        self.t = t

    def __repr__(self):
        return "VInt(%s)" % self.t


class VBool(V):
    def __init__(self, t):
        if isinstance(t, bool):
            t = z3.BoolVal(t)
        self.t = t

    def __repr__(self):
        return "VBool(%s)" % self.t


class VFloat(V):
    def __init__(self, t):
        self.t = t

    def __repr__(self):
        return "VFloat(%s)" % self.t


class VNone(V):
    def __repr__(self):
        return "VNone"


class VOpt(V):
    """Optional number: None when `isnone`, else the number `inner` (a local that is None on some paths and a number on others)"""

    def __init__(self, isnone, inner):
        self.isnone = isnone
        self.inner = inner

    def __repr__(self):
        return "VOpt(%s, %r)" % (self.isnone, self.inner)


class VStr(V):
    def __init__(self, s):
        self.s = s

    def __repr__(self):
        return "VStr(%r)" % self.s


class VTuple(V):
    def __init__(self, items):
        self.items = list(items)

    def __repr__(self):
        return "VTuple(%r)" % (self.items,)


class VRef(V):
    """reference to a heap cell holding an array"""

    def __init__(self, cell):
        self.cell = cell

    def __repr__(self):
        return "VRef(%s)" % self.cell


class VFunc(V):
    """a callable: python-level handler"""

    def __init__(self, name, handler=None, bound=None):
        self.name = name
        self.handler = handler
        self.bound = bound or {}

    def __repr__(self):
        return "VFunc(%s)" % self.name


class VModule(V):
    def __init__(self, name):
        self.name = name

    def __repr__(self):
        return "VModule(%s)" % self.name


class VDType(V):
    def __init__(self, et, name=""):
        self.et = et
        self.name = name

    def __repr__(self):
        return "VDType(%s)" % self.et


class VOpaque(V):
    """uninterpreted python object (Tier W)"""
    SORT = z3.DeclareSort("Obj")

    def __init__(self, t):
        self.t = t

    def __repr__(self):
        return "VOpaque(%s)" % self.t


ELEM_SORT = {"f": xr.F, "i": z3.IntSort(), "b": z3.BoolSort()}


def arr_sort(et, ndim):
    s = ELEM_SORT[et]
    for _ in range(ndim):
        s = z3.ArraySort(z3.IntSort(), s)
    return s


class ArrData:
    """heap content: nested z3 array + shape + element type + origin labels"""

    def __init__(self, elems, shape, et, roots=frozenset(), fresh=False):
        self.elems = elems
        self.shape = tuple(shape)
        self.et = et
        self.roots = frozenset(roots)   # names of parameters this may alias
        self.fresh = fresh              # allocated inside the function

    @property
    def ndim(self):
        return len(self.shape)

    def with_elems(self, elems):
        return ArrData(elems, self.shape, self.et, self.roots, self.fresh)

    def select(self, idx):
        t = self.elems
        for i in idx:
            t = z3.Select(t, i)
        return t

    def store(self, idx, v):
        def rec(t, k):
            if k == len(idx) - 1:
                return z3.Store(t, idx[k], v)
            return z3.Store(t, idx[k], rec(z3.Select(t, idx[k]), k + 1))
        return self.with_elems(rec(self.elems, 0))


def const_array(et, ndim, v):
    """array with every element == v"""
    s = ELEM_SORT[et]
    t = v
    for _ in range(ndim):
        t = z3.K(z3.IntSort(), t)
    return t


def fresh_array(base, et, ndim):
    return z3.Const(fresh_name(base), arr_sort(et, ndim))


def fresh_scalar(base, kind):
    if kind == "i":
        return VInt(z3.Int(fresh_name(base)))
    if kind == "f":
        return VFloat(z3.Const(fresh_name(base), xr.F))
    if kind == "b":
        return VBool(z3.Bool(fresh_name(base)))
    raise ValueError(kind)
