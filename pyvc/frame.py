"""Frame / ownership analysis (DESIGN 2.6): a static, flow-sensitive may-alias and
modification analysis over the real source of the whole package, inter-procedural
by summaries (fixpoint).  It does not depend on values, so what it establishes
holds for every input, dtype and memory layout; it is conservative (may-alias).

Per function it computes
  mods       parameters whose referent may be written (subscript / in-place / attribute store,
             mutating method, or passing to a callee that writes its parameter)
  ret_alias  parameters the return value may alias
  gwrites    writes to module globals / closure cells / default-argument objects
and, for C11, facts about jit decorators, module globals and RNG seeding.
"""
import ast
import os

from . import REPO

MODULES = [
    "xrspatial/slope.py", "xrspatial/aspect.py", "xrspatial/curvature.py", "xrspatial/hillshade.py",
    "xrspatial/convolution.py", "xrspatial/focal.py", "xrspatial/classify.py", "xrspatial/multispectral.py",
    "xrspatial/perlin.py", "xrspatial/terrain.py", "xrspatial/bump.py", "xrspatial/utils.py", "xrspatial/zonal.py",
    "xrspatial/proximity.py", "xrspatial/pathfinding.py", "xrspatial/viewshed.py", "xrspatial/local.py",
    "xrspatial/analytics.py", "xrspatial/experimental/polygonize.py",
]

# attributes / methods through which an object may be aliased
ALIAS_ATTRS = {"data", "values", "T", "real", "imag", "flat", "base"}
ALIAS_METHODS = {"ravel", "reshape", "squeeze", "view", "transpose", "swapaxes", "__array__", "to_numpy", "get",
                 "persist", "rename", "assign_coords", "assign_attrs"}
FRESH_METHODS = {"astype", "copy", "flatten", "compute", "rechunk", "map_blocks", "map_overlap", "tolist", "sum", "mean",
                 "min", "max", "std", "var", "any", "all", "item", "items", "keys", "round", "clip", "cumsum", "nonzero",
                 "to_delayed", "deepcopy", "isel", "sel", "format", "split", "strip", "lower", "upper", "join", "index",
                 "count", "to_dataframe", "to_array", "stack", "unstack", "argsort", "argmax", "argmin", "dot", "repeat",
                 "take", "groupby", "drop", "fillna", "isnull", "notnull", "where", "set_index", "reset_index", "append_",
                 "tobytes", "points", "line", "polygons", "raster", "shuffle_"}
MUTATING_METHODS = {"sort", "fill", "append", "extend", "update", "pop", "clear", "insert", "remove", "setdefault",
                    "shuffle", "resize", "put", "itemset", "setflags", "partition", "popitem", "add", "discard"}
ALIAS_FUNCS = {"numpy.asarray", "numpy.ascontiguousarray", "numpy.asfortranarray", "numpy.atleast_2d", "numpy.ravel",
               "numpy.reshape", "numpy.squeeze", "numpy.transpose", "dask.array.asarray", "dask.array.from_array",
               "numpy.asanyarray", "cupy.asarray", "numpy.nditer", "numpy.broadcast_to", "numpy.expand_dims"}
CUDA_DECOS = ("cuda.jit", "nb.cuda.jit", "numba.cuda.jit")


class Fn:
    def __init__(self, module, qual, node, parent=None):
        self.module = module
        self.qual = qual
        self.node = node
        self.parent = parent
        self.params = [a.arg for a in node.args.posonlyargs + node.args.args + node.args.kwonlyargs]
        if node.args.vararg:
            self.params.append(node.args.vararg.arg)
        if node.args.kwarg:
            self.params.append(node.args.kwarg.arg)
        self.mods = {}          # param -> list of (lineno, how)
        self.ret_alias = set()
        self.gwrites = []       # (lineno, what)
        self.benign = []        # (lineno, what) recognised value-preserving stores (rechunk / dtype widening)
        self.decos = [ast.unparse(d) for d in node.decorator_list] if isinstance(node, ast.FunctionDef) else []
        self.is_cuda = any(d.startswith(CUDA_DECOS) for d in self.decos)
        self.jitted = any(d.split("(")[0] in ("ngjit", "jit", "nb.jit", "njit", "nb.njit", "numba.jit") for d in self.decos)
        self.calls = set()

    @property
    def key(self):
        return "%s:%s" % (self.module.replace("xrspatial/", "").replace(".py", ""), self.qual)

    def summary(self):
        return (frozenset(self.mods), frozenset(self.ret_alias), len(self.gwrites))


class Package:
    def __init__(self, modules=MODULES):
        self.mods = {}
        self.fns = {}           # (module, qual) -> Fn
        self.imports = {}       # module -> {local name -> canonical}
        self.globals = {}       # module -> {name: count of module-level bindings}
        self.global_mutable = {}
        for m in modules:
            path = os.path.join(REPO, m)
            if not os.path.exists(path):
                continue
            tree = ast.parse(open(path).read())
            self.mods[m] = tree
            self.imports[m] = {}
            self.globals[m] = {}
            self._scan_module(m, tree)

    def _scan_module(self, m, tree):
        def imp(node):
            if isinstance(node, ast.Import):
                for a in node.names:
                    self.imports[m][a.asname or a.name.split(".")[0]] = a.name if a.asname else a.name.split(".")[0]
            elif isinstance(node, ast.ImportFrom):
                mod = node.module or ""
                if node.level:
                    base = m.rsplit("/", 1)[0].replace("/", ".")
                    mod = base + ("." + mod if mod else "")
                for a in node.names:
                    self.imports[m][a.asname or a.name] = "%s.%s" % (mod, a.name)
        for node in ast.walk(tree):
            imp(node)
        for node in tree.body:
            tg = []
            if isinstance(node, ast.Assign):
                tg = node.targets
            elif isinstance(node, (ast.AnnAssign, ast.AugAssign)):
                tg = [node.target]
            for t in tg:
                for x in ast.walk(t):
                    if isinstance(x, ast.Name):
                        self.globals[m][x.id] = self.globals[m].get(x.id, 0) + 1
        self._scan_funcs(m, tree.body, "", None)

    def _scan_funcs(self, m, body, prefix, parent):
        for node in body:
            if isinstance(node, ast.FunctionDef):
                f = Fn(m, prefix + node.name, node, parent)
                self.fns[(m, f.qual)] = f
                self._scan_funcs(m, node.body, f.qual + ".", f)
            elif isinstance(node, ast.ClassDef):
                self._scan_funcs(m, node.body, prefix + node.name + ".", parent)
            elif isinstance(node, (ast.If, ast.Try, ast.With, ast.For, ast.While)):
                for fld in ("body", "orelse", "finalbody"):
                    self._scan_funcs(m, getattr(node, fld, []) or [], prefix, parent)

    # ------------------------------------------------------------------ resolution
    def canon(self, m, node):
        """dotted canonical name of a Name/Attribute chain through the module's imports, or None"""
        parts = []
        while isinstance(node, ast.Attribute):
            parts.append(node.attr)
            node = node.value
        if not isinstance(node, ast.Name):
            return None
        base = self.imports[m].get(node.id)
        if base is None:
            return None
        return ".".join([base] + list(reversed(parts)))

    def resolve_fn(self, m, name, scope=None):
        """package function a bare name refers to"""
        if scope is not None:
            f = self.fns.get((m, scope.qual + "." + name))
            if f:
                return f
            if scope.parent is not None:
                r = self.resolve_fn(m, name, scope.parent)
                if r:
                    return r
        f = self.fns.get((m, name))
        if f:
            return f
        c = self.imports[m].get(name)
        if c and c.startswith("xrspatial."):
            modname, fn = c.rsplit(".", 1)
            return self.fns.get((modname.replace(".", "/") + ".py", fn))
        return None

    # ------------------------------------------------------------------ analysis
    def analyse(self):
        for _ in range(12):
            before = {k: f.summary() for k, f in self.fns.items()}
            for f in self.fns.values():
                if f.is_cuda:
                    continue
                Analyzer(self, f).run()
            if before == {k: f.summary() for k, f in self.fns.items()}:
                break
        return self


class Analyzer:
    def __init__(self, pkg, fn):
        self.pkg = pkg
        self.fn = fn
        self.m = fn.module
        fn.mods = {}
        fn.ret_alias = set()
        fn.gwrites = []
        fn.benign = []
        self.funvals = {}       # local name -> list of (Fn, bound positional count) for partial/lambda/mapper values
        self.locals = set(fn.params)
        for x in ast.walk(fn.node):
            if isinstance(x, ast.Name) and isinstance(x.ctx, ast.Store):
                self.locals.add(x.id)
            elif isinstance(x, ast.FunctionDef) and x is not fn.node:
                self.locals.add(x.name)
        self.scalars = self.infer_scalars(fn.node)
        self.declared_global = set()
        for x in ast.walk(fn.node):
            if isinstance(x, (ast.Global, ast.Nonlocal)):
                self.declared_global |= set(x.names)
                for nm in x.names:
                    fn.gwrites.append((x.lineno, "%s %s" % ("global" if isinstance(x, ast.Global) else "nonlocal", nm)))

    @staticmethod
    def infer_scalars(node):
        """names that are certainly Python/NumPy scalars (immutable): used as an operand of a comparison that is
        the test of an if/while, as a range() argument, as a plain subscript index, or assigned from a numeric
        literal / len() / int() / float(); closed under plain copies  x = y."""
        sc = set()

        def names_in_test(t):
            if isinstance(t, ast.BoolOp):
                for v in t.values:
                    names_in_test(v)
            elif isinstance(t, ast.UnaryOp):
                names_in_test(t.operand)
            elif isinstance(t, ast.Compare):
                if all(isinstance(o, (ast.Lt, ast.LtE, ast.Gt, ast.GtE, ast.Eq, ast.NotEq)) for o in t.ops):
                    for x in [t.left] + t.comparators:
                        if isinstance(x, ast.Name):
                            sc.add(x.id)
        for x in ast.walk(node):
            if isinstance(x, (ast.If, ast.While, ast.IfExp)):
                names_in_test(x.test)
            elif isinstance(x, ast.Call) and isinstance(x.func, ast.Name) and x.func.id in ("range", "prange"):
                for a in x.args:
                    if isinstance(a, ast.Name):
                        sc.add(a.id)
            elif isinstance(x, ast.Subscript):
                idx = x.slice.elts if isinstance(x.slice, ast.Tuple) else [x.slice]
                for i in idx:
                    if isinstance(i, ast.Name):
                        sc.add(i.id)
            elif isinstance(x, ast.Assign) and len(x.targets) == 1 and isinstance(x.targets[0], ast.Name):
                v = x.value
                if (isinstance(v, ast.Constant) and isinstance(v.value, (int, float)) and not isinstance(v.value, bool)) or \
                        (isinstance(v, ast.Call) and isinstance(v.func, ast.Name) and v.func.id in ("len", "int", "float")):
                    sc.add(x.targets[0].id)
        changed = True
        copies = [(x.targets[0].id, x.value.id) for x in ast.walk(node)
                  if isinstance(x, ast.Assign) and len(x.targets) == 1 and isinstance(x.targets[0], ast.Name)
                  and isinstance(x.value, ast.Name)]
        while changed:
            changed = False
            for a, b in copies:
                if (a in sc) != (b in sc):
                    sc |= {a, b}
                    changed = True
        return sc

    def run(self):
        env = {p: {p} for p in self.fn.params}
        # mutable default objects behave like module state shared between calls
        a = self.fn.node.args
        defaults = dict(zip([x.arg for x in a.args][len(a.args) - len(a.defaults):], a.defaults))
        self.mutable_defaults = {k for k, v in defaults.items() if isinstance(v, (ast.List, ast.Dict, ast.Set, ast.Call))}
        self.block(self.fn.node.body, env)

    # ---- environment handling
    def join(self, a, b):
        out = {}
        for k in set(a) | set(b):
            out[k] = set(a.get(k, set())) | set(b.get(k, set()))
        return out

    def block(self, stmts, env):
        for s in stmts:
            env = self.stmt(s, env)
        return env

    def root_of_name(self, name, env):
        if name in env:
            return set(env[name])
        if name in self.locals and name not in self.declared_global:
            return set()
        # closure variable of an enclosing function, or module global
        p = self.fn.parent
        while p is not None:
            if name in p.params or any(isinstance(x, ast.Name) and x.id == name and isinstance(x.ctx, ast.Store)
                                       for x in ast.walk(p.node)):
                return {"CLOSURE:" + name}
            p = p.parent
        if name in self.pkg.globals[self.m]:
            return {"G:" + name}
        return set()

    # ---- alias evaluation
    def al(self, e, env):
        if e is None:
            return set()
        if isinstance(e, ast.Name):
            return self.root_of_name(e.id, env)
        if isinstance(e, ast.Attribute):
            if e.attr in ALIAS_ATTRS or e.attr in ("coords", "attrs", "dims", "indexes", "chunks", "name"):
                if e.attr in ("coords", "attrs", "dims", "indexes", "chunks", "name"):
                    return {r + "." + e.attr if not r.startswith(("G:", "CLOSURE:")) and "~" not in r else r for r in self.al(e.value, env)}
                return self.al(e.value, env)
            return set()
        if isinstance(e, ast.Subscript):
            base = self.al(e.value, env)
            out = set()
            vararg = self.fn.node.args.vararg.arg if self.fn.node.args.vararg else None
            for r in base:
                if r.endswith("~elem"):
                    out.add(r[:-5])                     # element of a fresh container: the element object itself
                elif isinstance(e.value, ast.Name) and e.value.id == vararg:
                    out.add(r)                          # element of *args: the caller's own object
                elif r.endswith("~view") or r.startswith(("G:", "CLOSURE:")):
                    out.add(r)
                else:
                    out.add(r + "~view")                # indexing yields a new object sharing the buffer
            return out
        if isinstance(e, ast.Starred):
            return self.al(e.value, env)
        if isinstance(e, (ast.Tuple, ast.List, ast.Set)):
            out = set()
            for x in e.elts:
                out |= self.al(x, env)
            return {r if r.endswith("~elem") else r + "~elem" for r in out}
        if isinstance(e, ast.Dict):
            out = set()
            for x in e.values:
                out |= self.al(x, env)
            return {r if r.endswith("~elem") else r + "~elem" for r in out}
        if isinstance(e, ast.IfExp):
            return self.al(e.body, env) | self.al(e.orelse, env)
        if isinstance(e, ast.BoolOp):
            out = set()
            for x in e.values:
                out |= self.al(x, env)
            return out
        if isinstance(e, ast.NamedExpr):
            return self.al(e.value, env)
        if isinstance(e, ast.Call):
            return self.call(e, env)
        if isinstance(e, (ast.ListComp, ast.GeneratorExp, ast.SetComp, ast.DictComp)):
            # comprehension: elements may alias what the element expression aliases
            env2 = dict(env)
            for g in e.generators:
                self.bind_loop_target(g.target, g.iter, env2)
            inner = self.al(e.value, env2) if isinstance(e, ast.DictComp) else self.al(e.elt, env2)
            return {r if r.endswith("~elem") else r + "~elem" for r in inner}     # a fresh container of possibly aliasing elements
        return set()        # constants, arithmetic, comparisons: fresh values

    @staticmethod
    def elem(roots):
        return {r[:-5] if r.endswith("~elem") else r for r in roots}

    @staticmethod
    def plain(roots):
        return {r[:-5] if r.endswith(("~elem", "~view")) else r for r in roots}

    def bind_loop_target(self, target, it, env):
        """loop variable = element of the iterable; zip()/enumerate() are matched positionally"""
        if isinstance(it, ast.Call) and isinstance(it.func, ast.Name) and it.func.id == "zip" and \
                isinstance(target, (ast.Tuple, ast.List)) and len(target.elts) == len(it.args):
            for t, a in zip(target.elts, it.args):
                self.bind_loop_target(t, a, env)
            return
        if isinstance(it, ast.Call) and isinstance(it.func, ast.Name) and it.func.id == "enumerate" and \
                isinstance(target, (ast.Tuple, ast.List)) and len(target.elts) == 2 and it.args:
            self.bind_loop_target(target.elts[1], it.args[0], env)
            for x in ast.walk(target.elts[0]):
                if isinstance(x, ast.Name):
                    env[x.id] = set()
            return
        roots = self.elem(self.al(it, env))
        for x in ast.walk(target):
            if isinstance(x, ast.Name):
                env[x.id] = set(roots)

    def callee_targets(self, func, env):
        """package functions a call expression may invoke: list of (Fn, n_bound_positional, bound_kw)"""
        if isinstance(func, ast.Name):
            if func.id in self.funvals:
                return self.funvals[func.id]
            f = self.pkg.resolve_fn(self.m, func.id, self.fn)
            return [(f, 0, set())] if f else []
        if isinstance(func, ast.Call):
            # mapper(agg)(...) / partial(f, ...)(...)
            inner = func
            if isinstance(inner.func, ast.Name) and inner.func.id in self.funvals:
                return self.funvals[inner.func.id]
            return self.funval_of(inner, env)
        if isinstance(func, ast.Lambda):
            return self.lambda_targets(func, env)
        return []

    def lambda_targets(self, lam, env):
        out = []
        for x in ast.walk(lam.body):
            if isinstance(x, ast.Call):
                out.extend(self.callee_targets(x.func, env))
        return [(f, 0, set()) for f, _, _ in out]

    def funval_of(self, e, env):
        """function values built by an expression (partial / ArrayTypeFunctionMapping / lambda / name)"""
        if isinstance(e, ast.Lambda):
            return self.lambda_targets(e, env)
        if isinstance(e, ast.Name):
            if e.id in self.funvals:
                return self.funvals[e.id]
            f = self.pkg.resolve_fn(self.m, e.id, self.fn)
            return [(f, 0, set())] if f else []
        if isinstance(e, ast.Call):
            fname = e.func.id if isinstance(e.func, ast.Name) else (e.func.attr if isinstance(e.func, ast.Attribute) else None)
            if fname == "partial" and e.args:
                base = self.funval_of(e.args[0], env)
                return [(f, nb + len(e.args) - 1, kw | {k.arg for k in e.keywords}) for f, nb, kw in base]
            if fname == "ArrayTypeFunctionMapping":
                out = []
                for k in e.keywords:
                    if k.arg in ("numpy_func", "dask_func"):
                        out.extend(self.funval_of(k.value, env))
                for a in e.args[:1] + e.args[2:3]:
                    out.extend(self.funval_of(a, env))
                return out
            if fname == "delayed" and e.args:
                return self.funval_of(e.args[0], env)
            if isinstance(e.func, ast.Name) and e.func.id in self.funvals:
                return self.funvals[e.func.id]      # mapper(agg) -> the mapped functions
        return []

    def call(self, e, env):
        """alias set of a call's result; records modifications made by the callee"""
        func = e.func
        argal = [self.al(a, env) for a in e.args]
        kwal = {k.arg: self.al(k.value, env) for k in e.keywords}
        # method calls
        if isinstance(func, ast.Attribute):
            canon = self.pkg.canon(self.m, func)
            if canon is None:
                recv = self.al(func.value, env)
                if func.attr in MUTATING_METHODS:
                    self.write(recv, e.lineno, ".%s()" % func.attr, env, e)
                    if func.attr in ("append", "extend", "insert", "add", "update", "setdefault") and isinstance(func.value, ast.Name):
                        add = set()
                        for a in argal:
                            add |= a
                        for a in kwal.values():
                            add |= a
                        if func.value.id in env:
                            env[func.value.id] = set(env[func.value.id]) | {r if r.endswith("~elem") else r + "~elem" for r in add}
                    return set()
                if func.attr in ALIAS_METHODS:
                    return recv
                if func.attr in ("map_blocks", "map_overlap") and e.args:
                    for f, nb, kw in self.funval_of(e.args[0], env):
                        self.apply_summary(f, [recv], {}, e.lineno, nb)
                return set()
            # module function
            if canon in ALIAS_FUNCS and e.args:
                return argal[0]
            if canon in ("numpy.random.shuffle",) and e.args:
                self.write(argal[0], e.lineno, "np.random.shuffle", env, e)
                return set()
            if canon in ("xarray.DataArray",) and (e.args or "data" in kwal):
                return argal[0] if e.args else kwal["data"]
            if canon in ("dask.array.map_blocks", "dask.array.map_overlap", "dask.array.blockwise") and e.args:
                for f, nb, kw in self.funval_of(e.args[0], env):
                    self.apply_summary(f, argal[1:], kwal, e.lineno, nb)
                return set()
            if canon.startswith("xrspatial."):
                modname, fn = canon.rsplit(".", 1)
                f = self.pkg.fns.get((modname.replace(".", "/") + ".py", fn))
                if f:
                    return self.apply_summary(f, argal, kwal, e.lineno, 0)
            return set()
        if isinstance(func, ast.Name) and func.id in ("partial", "ArrayTypeFunctionMapping", "delayed"):
            return set()
        targets = self.callee_targets(func, env)
        if not targets:
            if isinstance(func, ast.Name) and func.id in ("list", "tuple", "sorted", "reversed", "iter", "zip", "enumerate"):
                out = set()
                for a in argal:
                    out |= a
                return out if func.id in ("zip", "enumerate", "iter", "reversed") else set()
            return set()
        out = set()
        for f, nb, kw in targets:
            if f is None:
                continue
            out |= self.apply_summary(f, argal, kwal, e.lineno, nb, has_star=any(isinstance(a, ast.Starred) for a in e.args))
        return out

    def apply_summary(self, f, argal, kwal, lineno, nbound=0, has_star=False):
        self.fn.calls.add(f.key)
        res = set()
        params = f.params[nbound:]
        binding = {}
        for i, a in enumerate(argal):
            if i < len(params):
                binding[params[i]] = set(a)
        if has_star:
            star = set()
            for a in argal:
                star |= a
            for p in params:
                binding.setdefault(p, set()).update(star)
        for k, a in kwal.items():
            if k in f.params:
                binding[k] = set(a)
        for p, how in f.mods.items():
            if p in binding:
                self.write(self.elem(binding[p]) if False else binding[p], lineno, "passed to %s which writes its parameter %s" % (f.key, p), {}, None)
        for p in f.ret_alias:
            if p in binding:
                res |= self.elem(binding[p])
        return res

    # ---- recording writes
    def write(self, roots, lineno, how, env, node):
        for r in roots:
            if r.endswith("~elem"):
                continue            # the container itself is a fresh object; only its elements alias
            if r.endswith("~view"):
                if how.startswith("attribute store") and not how.endswith((".data", ".values")):
                    continue        # attribute of the new view object (e.g. .name), not of the parameter
                r = r[:-5]
            base = r.split(".")[0] if not r.startswith(("G:", "CLOSURE:")) else r
            if r.startswith("G:") or r.startswith("CLOSURE:"):
                self.fn.gwrites.append((lineno, "%s of %s" % (how, r)))
            elif base in self.fn.params:
                self.fn.mods.setdefault(base, []).append((lineno, how + ("" if r == base else " (via %s)" % r)))
                if base in getattr(self, "mutable_defaults", ()):
                    self.fn.gwrites.append((lineno, "%s of mutable default argument %s" % (how, base)))

    def is_selfpreserving(self, target, value):
        """X.data = X.data.rechunk(...)  /  X.values = X.values.astype(...): value-preserving re-wrapping"""
        if not (isinstance(target, ast.Attribute) and target.attr in ("data", "values")):
            return None
        if isinstance(value, ast.Call) and isinstance(value.func, ast.Attribute) and value.func.attr in ("rechunk", "astype"):
            src = value.func.value
            if ast.unparse(src) == ast.unparse(target):
                return value.func.attr
            if value.func.attr == "astype" and isinstance(src, ast.Attribute) and ast.unparse(src.value) == ast.unparse(target.value):
                return "astype"
        if isinstance(value, ast.Call) and ast.unparse(value.func).endswith("asnumpy"):
            return "asnumpy"
        return None

    def store_target(self, t, value, env, lineno):
        if isinstance(t, ast.Name):
            if t.id in self.declared_global:
                self.fn.gwrites.append((lineno, "assignment to global/nonlocal %s" % t.id))
            env[t.id] = self.al(value, env) if value is not None else set()
            fv = self.funval_of(value, env) if value is not None else []
            if fv:
                self.funvals[t.id] = fv
            elif t.id in self.funvals:
                del self.funvals[t.id]
        elif isinstance(t, (ast.Tuple, ast.List)):
            for x in t.elts:
                self.store_target(x, value, env, lineno)
        elif isinstance(t, ast.Starred):
            self.store_target(t.value, value, env, lineno)
        elif isinstance(t, ast.Subscript):
            self.write(self.al(t.value, env), lineno, "subscript store", env, t)
        elif isinstance(t, ast.Attribute):
            kind = self.is_selfpreserving(t, value)
            roots = self.al(t.value, env)
            if kind:
                for r in roots:
                    self.fn.benign.append((lineno, "%s = %s  [value-preserving %s of %s]" % (ast.unparse(t), ast.unparse(value)[:60], kind, r)))
            else:
                self.write(roots, lineno, "attribute store .%s" % t.attr, env, t)

    # ---- statements
    def stmt(self, s, env):
        if isinstance(s, ast.Assign):
            for e in ast.walk(s.value):
                pass
            self.al(s.value, env)          # evaluates calls for their effects once
            for t in s.targets:
                self.store_target(t, s.value, env, s.lineno)
            return env
        if isinstance(s, ast.AnnAssign):
            if s.value is not None:
                self.store_target(s.target, s.value, env, s.lineno)
            return env
        if isinstance(s, ast.AugAssign):
            self.al(s.value, env)
            t = s.target
            if isinstance(t, ast.Name):
                roots = self.root_of_name(t.id, env)
                # in-place operator on an array that may alias a parameter / global (scalars are rebound, not written)
                if t.id not in self.scalars:
                    self.write(roots, s.lineno, "in-place operator", env, s)
            elif isinstance(t, ast.Subscript):
                self.write(self.al(t.value, env), s.lineno, "in-place subscript store", env, s)
            elif isinstance(t, ast.Attribute):
                self.write(self.al(t.value, env), s.lineno, "in-place attribute store .%s" % t.attr, env, s)
            return env
        if isinstance(s, ast.Expr):
            self.al(s.value, env)
            return env
        if isinstance(s, ast.Return):
            if s.value is not None:
                for r in self.al(s.value, env):
                    r = r[:-5] if r.endswith(("~elem", "~view")) else r
                    base = r.split(".")[0]
                    if r == base and base in self.fn.params:
                        self.fn.ret_alias.add(base)
            return env
        if isinstance(s, ast.If):
            self.al(s.test, env)
            a = self.block(s.body, {k: set(v) for k, v in env.items()})
            b = self.block(s.orelse, {k: set(v) for k, v in env.items()})
            return self.join(a, b)
        if isinstance(s, (ast.For, ast.While)):
            for _ in range(2):
                if isinstance(s, ast.For):
                    self.bind_loop_target(s.target, s.iter, env)
                else:
                    self.al(s.test, env)
                env = self.join(env, self.block(s.body, {k: set(v) for k, v in env.items()}))
            if s.orelse:
                env = self.join(env, self.block(s.orelse, {k: set(v) for k, v in env.items()}))
            return env
        if isinstance(s, ast.With):
            for it in s.items:
                self.al(it.context_expr, env)
                if it.optional_vars is not None:
                    self.store_target(it.optional_vars, it.context_expr, env, s.lineno)
            return self.block(s.body, env)
        if isinstance(s, ast.Try):
            env = self.block(s.body, env)
            for h in s.handlers:
                env = self.join(env, self.block(h.body, {k: set(v) for k, v in env.items()}))
            env = self.block(s.orelse, env)
            return self.block(s.finalbody, env)
        if isinstance(s, ast.FunctionDef):
            env[s.name] = set()
            f = self.pkg.fns.get((self.m, self.fn.qual + "." + s.name))
            if f:
                self.funvals[s.name] = [(f, 0, set())]
            return env
        if isinstance(s, (ast.Raise, ast.Assert)):
            for x in ast.iter_child_nodes(s):
                if isinstance(x, ast.expr):
                    self.al(x, env)
            return env
        if isinstance(s, ast.Delete):
            return env
        return env


# ------------------------------------------------------------------------------------ C11 facts
RNG_DRAWS = {"permutation", "rand", "randn", "randint", "random", "random_sample", "choice", "shuffle", "normal", "uniform",
             "standard_normal", "bytes", "beta", "binomial", "poisson"}


def jit_decorator_facts(pkg):
    """[(fn key, lineno, decorator text, problem or None)] for every numba jit decorator in the package"""
    out = []
    for f in pkg.fns.values():
        for d in f.node.decorator_list:
            txt = ast.unparse(d)
            if "jit" not in txt:
                continue
            prob = None
            if isinstance(d, ast.Call):
                for k in d.keywords:
                    if k.arg in ("parallel", "cache") and not (isinstance(k.value, ast.Constant) and k.value.value is False):
                        prob = "%s=%s" % (k.arg, ast.unparse(k.value))
            out.append((f.key, d.lineno, txt, prob))
    # the ngjit alias itself
    for m, tree in pkg.mods.items():
        for node in tree.body:
            if isinstance(node, ast.Assign) and any(isinstance(t, ast.Name) and t.id == "ngjit" for t in node.targets):
                txt = ast.unparse(node.value)
                prob = None
                for x in ast.walk(node.value):
                    if isinstance(x, ast.keyword) and x.arg in ("parallel", "cache") and not (
                            isinstance(x.value, ast.Constant) and x.value.value is False):
                        prob = "%s=%s" % (x.arg, ast.unparse(x.value))
                out.append(("%s:ngjit" % m, node.lineno, txt, prob))
    return out


def rng_facts(pkg):
    """every draw from the global NumPy RNG must be dominated by np.random.seed(...) in the same function"""
    out = []
    for f in pkg.fns.values():
        if f.is_cuda:
            continue
        draws = []

        def scan(stmts, seeded):
            for s in stmts:
                for x in ast.walk(s) if not isinstance(s, (ast.If, ast.For, ast.While, ast.With, ast.Try, ast.FunctionDef)) else []:
                    if isinstance(x, ast.Call):
                        c = pkg.canon(f.module, x.func)
                        if c == "numpy.random.seed":
                            seeded = True
                        elif c and c.startswith("numpy.random.") and c.rsplit(".", 1)[1] in RNG_DRAWS:
                            draws.append((x.lineno, c, seeded))
                if isinstance(s, (ast.If, ast.For, ast.While, ast.With, ast.Try)):
                    for x in ast.iter_child_nodes(s):
                        if isinstance(x, ast.expr):
                            for y in ast.walk(x):
                                if isinstance(y, ast.Call):
                                    c = pkg.canon(f.module, y.func)
                                    if c == "numpy.random.seed":
                                        seeded = True
                                    elif c and c.startswith("numpy.random.") and c.rsplit(".", 1)[1] in RNG_DRAWS:
                                        draws.append((y.lineno, c, seeded))
                    inner = seeded
                    for fld in ("body", "orelse", "finalbody"):
                        r = scan(getattr(s, fld, []) or [], seeded)
                        if fld == "body" and isinstance(s, ast.With):
                            inner = r
                    if isinstance(s, ast.With):
                        seeded = inner
            return seeded
        scan(f.node.body, False)
        for ln, c, ok in draws:
            out.append((f.key, ln, c, ok))
    return out


def jitted_global_reads(pkg):
    """module-level names read inside jitted functions: must be bound exactly once at module level (Numba freezes them)"""
    out = []
    for f in pkg.fns.values():
        if not f.jitted or f.is_cuda:
            continue
        local = set(f.params)
        for x in ast.walk(f.node):
            if isinstance(x, ast.Name) and isinstance(x.ctx, ast.Store):
                local.add(x.id)
        seen = set()
        for x in ast.walk(f.node):
            if isinstance(x, ast.Name) and isinstance(x.ctx, ast.Load) and x.id not in local and x.id not in seen:
                seen.add(x.id)
                n = pkg.globals[f.module].get(x.id)
                if n is not None:
                    out.append((f.key, x.id, n))
    return out
