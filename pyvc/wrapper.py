"""Tier W (DESIGN 2.4): symbolic evaluation of the straight-line public wrappers over
opaque Python objects.  A wrapper is evaluated, per backend (numpy / dask), to a
*term*; transparent package helpers are inlined from their real AST, kernels under
contract and external calls stay as applications.  Obligations are structural
facts about that term (identity of coords/dims/attrs, which kernel is applied to
which arguments, halo depth >= stencil radius, NaN boundary, same bound
parameters on both backends, result stays lazy).  They hold for every input
because the evaluation does not depend on values.
"""
import ast

from . import frame

# ---------------------------------------------------------------------------- terms
# ('param', name) ('const', v) ('attr', t, name) ('item', t, i) ('tuple', (t..)) ('fn', key) ('ext', canon)
# ('call', f, (args..), ((k, t)..)) ('partial', f, (args..), ((k,t)..)) ('binop', op, a, b) ('unop', op, a)
# ('cmp', src) ('ite', c, a, b) ('lambda', id, src) ('dispatch', aggterm, ((backend, fterm)..)) ('dict', ...)


class Raised(Exception):
    pass


class WUnsupported(Exception):
    pass


def show(t, depth=0):
    k = t[0]
    if k == "param":
        return t[1]
    if k == "const":
        return repr(t[1])
    if k == "attr":
        return "%s.%s" % (show(t[1]), t[2])
    if k == "item":
        return "%s[%s]" % (show(t[1]), show(t[2]))
    if k == "tuple":
        return "(" + ", ".join(show(x) for x in t[1]) + ")"
    if k in ("fn", "ext"):
        return t[1]
    if k in ("call", "partial"):
        a = [show(x) for x in t[2]] + ["%s=%s" % (n, show(v)) for n, v in t[3]]
        return "%s%s(%s)" % ("partial:" if k == "partial" else "", show(t[1]), ", ".join(a))
    if k == "binop":
        return "(%s %s %s)" % (show(t[2]), t[1], show(t[3]))
    if k == "unop":
        return "(%s%s)" % (t[1], show(t[2]))
    if k == "ite":
        return "ite(%s, %s, %s)" % (show(t[1]), show(t[2]), show(t[3]))
    if k == "cmp":
        return t[1]
    if k == "lambda":
        return "<lambda %s>" % t[2]
    if k == "dispatch":
        return "dispatch(%s)" % show(t[1])
    return str(t)


class Evaluator:
    def __init__(self, pkg, backend, opaque=()):
        self.pkg = pkg
        self.backend = backend          # 'numpy' | 'dask'
        self.opaque = set(opaque)       # fn keys that are not inlined
        self.depth = 0
        self.trace = []                 # notable calls seen (compute(), asarray ...)

    # -- function resolution
    def fn_term(self, m, name, scope):
        f = self.pkg.resolve_fn(m, name, scope)
        return ("fn", f.key) if f else None

    def get_fn(self, key):
        for f in self.pkg.fns.values():
            if f.key == key:
                return f
        return None

    # -- evaluation of a function body
    def run_fn(self, f, args, kwargs):
        """evaluate package function f on term arguments; returns the result term"""
        self.depth += 1
        if self.depth > 12:
            raise WUnsupported("inlining too deep at %s" % f.key)
        try:
            env = self.bind(f, args, kwargs)
            res = self.block(f.node.body, env, f)
            if res is None:
                return ("const", None)
            return res[1]
        finally:
            self.depth -= 1

    def bind(self, f, args, kwargs):
        a = f.node.args
        names = [x.arg for x in a.posonlyargs + a.args]
        env = {}
        defaults = dict(zip(names[len(names) - len(a.defaults):], a.defaults))
        for i, v in enumerate(args):
            if i < len(names):
                env[names[i]] = v
            elif a.vararg:
                env.setdefault(a.vararg.arg, ("tuple", ()))
                env[a.vararg.arg] = ("tuple", env[a.vararg.arg][1] + (v,))
            else:
                raise WUnsupported("too many arguments for %s" % f.key)
        if a.vararg and a.vararg.arg not in env:
            env[a.vararg.arg] = ("tuple", ())
        for k, v in kwargs:
            env[k] = v
        for x, d in zip(a.kwonlyargs, a.kw_defaults):
            if x.arg not in env and d is not None:
                env[x.arg] = self.ev(d, {}, f)
        for n in names:
            if n not in env:
                if n in defaults:
                    env[n] = self.ev(defaults[n], {}, f)
                else:
                    raise WUnsupported("missing argument %s for %s" % (n, f.key))
        return env

    def block(self, stmts, env, f):
        """returns None (fell through) or ('ret', term)"""
        for i, s in enumerate(stmts):
            if isinstance(s, ast.Return):
                return ("ret", self.ev(s.value, env, f) if s.value is not None else ("const", None))
            if isinstance(s, ast.Raise):
                raise Raised()
            if isinstance(s, ast.Assign):
                v = self.ev(s.value, env, f)
                for t in s.targets:
                    self.assign(t, v, env, f)
            elif isinstance(s, ast.AnnAssign):
                if s.value is not None:
                    self.assign(s.target, self.ev(s.value, env, f), env, f)
            elif isinstance(s, ast.AugAssign):
                cur = self.ev(ast.Name(id=s.target.id, ctx=ast.Load()), env, f) if isinstance(s.target, ast.Name) else None
                if cur is None:
                    raise WUnsupported("augmented assignment to non-name")
                env[s.target.id] = ("binop", type(s.op).__name__, cur, self.ev(s.value, env, f))
            elif isinstance(s, ast.Expr):
                if not isinstance(s.value, ast.Constant):
                    self.trace.append(("effect", self.ev(s.value, env, f)))
            elif isinstance(s, ast.If):
                rest = stmts[i + 1:]
                return self.branch(s, rest, env, f)
            elif isinstance(s, (ast.Pass, ast.Import, ast.ImportFrom)):
                pass
            elif isinstance(s, ast.FunctionDef):
                env[s.name] = ("fn", f.key.split(":")[0] + ":" + f.qual + "." + s.name)
            elif isinstance(s, ast.With):
                r = self.block(s.body, env, f)
                if r is not None:
                    return r
            elif isinstance(s, ast.Assert):
                pass
            elif isinstance(s, (ast.For, ast.While)):
                raise WUnsupported("loop in wrapper %s line %d" % (f.key, s.lineno))
            else:
                raise WUnsupported("statement %s in wrapper %s" % (type(s).__name__, f.key))
        return None

    def static_test(self, t, env, f):
        """decide tests that depend only on the backend / on constants"""
        src = ast.unparse(t)
        if isinstance(t, ast.Call) and isinstance(t.func, ast.Name) and t.func.id == "isinstance" and len(t.args) == 2:
            cls = ast.unparse(t.args[1])
            obj = self.ev(t.args[0], env, f)
            if obj[0] == "attr" and obj[2] == "data" or obj[0] == "param" and False:
                if cls in ("np.ndarray", "numpy.ndarray"):
                    return self.backend == "numpy"
                if cls in ("da.Array", "dask.array.Array"):
                    return self.backend == "dask"
            if cls in ("da.Array",) and obj[0] in ("call", "attr"):
                return self.backend == "dask" if self.is_data(obj) else None
            if cls in ("np.ndarray",) and obj[0] in ("call", "attr"):
                return self.backend == "numpy" if self.is_data(obj) else None
        if src in ("has_cuda_and_cupy()", "has_cuda_and_cupy() and is_cupy_array(arr.data)", "has_cuda_and_cupy() and is_dask_cupy(arr)"):
            return False
        if isinstance(t, ast.BoolOp) and isinstance(t.op, ast.And):
            vals = [self.static_test(v, env, f) for v in t.values]
            if any(v is False for v in vals):
                return False
            if all(v is True for v in vals):
                return True
            return None
        if isinstance(t, ast.Compare) and len(t.ops) == 1 and isinstance(t.ops[0], (ast.Eq, ast.NotEq, ast.Is, ast.IsNot)):
            a, b = self.ev(t.left, env, f), self.ev(t.comparators[0], env, f)
            mods = {"np": "numpy", "da": "dask", "cupy": "cupy"}
            if a[0] == "ext" and b[0] == "ext" and a[1] in ("numpy", "dask.array", "cupy") and b[1] in ("numpy", "dask.array", "cupy"):
                r = a[1] == b[1]
                return r if isinstance(t.ops[0], (ast.Eq, ast.Is)) else not r
            if a[0] == "const" and b[0] == "const":
                r = a[1] == b[1] if isinstance(t.ops[0], (ast.Eq, ast.NotEq)) else a[1] is b[1]
                return r if isinstance(t.ops[0], (ast.Eq, ast.Is)) else not r
        if isinstance(t, ast.UnaryOp) and isinstance(t.op, ast.Not):
            v = self.static_test(t.operand, env, f)
            return None if v is None else not v
        return None

    def is_data(self, t):
        while t[0] == "call" and t[1][0] == "attr" and t[1][2] in ("astype", "rechunk", "ravel"):
            t = t[1][1]
        return t[0] == "attr" and t[2] == "data"

    def branch(self, s, rest, env, f):
        st = self.static_test(s.test, env, f)
        outs = []
        for cond, body in ((True, s.body), (False, s.orelse)):
            if st is not None and st != cond:
                continue
            e2 = dict(env)
            try:
                r = self.block(list(body) + list(rest), e2, f)
            except Raised:
                continue            # validation branch that raises: not part of the value
            outs.append((cond, r, e2))
        if not outs:
            raise Raised()
        if len(outs) == 1:
            cond, r, e2 = outs[0]
            env.clear()
            env.update(e2)
            return r
        (c1, r1, e1), (c2, r2, e2) = outs
        if r1 is None or r2 is None:
            if r1 is None and r2 is None:
                env.clear()
                env.update(e1)
                return None
            raise WUnsupported("branch with partial return in %s line %d" % (f.key, s.lineno))
        if r1 == r2:
            return r1
        return ("ret", ("ite", ("cmp", ast.unparse(s.test)), r1[1], r2[1]))

    def assign(self, t, v, env, f):
        if isinstance(t, ast.Name):
            env[t.id] = v
        elif isinstance(t, (ast.Tuple, ast.List)):
            for i, x in enumerate(t.elts):
                if v[0] == "tuple" and len(v[1]) == len(t.elts):
                    self.assign(x, v[1][i], env, f)
                else:
                    self.assign(x, ("item", v, ("const", i)), env, f)
        elif isinstance(t, ast.Attribute):
            self.trace.append(("attr-store", self.ev(t.value, env, f), t.attr, v))
        elif isinstance(t, ast.Subscript):
            self.trace.append(("item-store", self.ev(t.value, env, f), v))
        else:
            raise WUnsupported("assignment target")

    # -- expressions
    def ev(self, e, env, f):
        if isinstance(e, ast.Constant):
            return ("const", e.value)
        if isinstance(e, ast.Name):
            if e.id in env:
                return env[e.id]
            if e.id in ("None", "True", "False"):
                return ("const", {"None": None, "True": True, "False": False}[e.id])
            ft = self.fn_term(f.module, e.id, f)
            if ft:
                return ft
            c = self.pkg.imports[f.module].get(e.id)
            if c:
                return ("ext", c)
            if e.id in self.pkg.globals[f.module]:
                return ("ext", "%s.%s" % (f.module, e.id))
            return ("ext", "builtins." + e.id)
        if isinstance(e, ast.Attribute):
            b = self.ev(e.value, env, f)
            if b[0] == "ext":
                return ("ext", b[1] + "." + e.attr)
            return ("attr", b, e.attr)
        if isinstance(e, ast.Tuple) or isinstance(e, ast.List):
            items = []
            for x in e.elts:
                if isinstance(x, ast.Starred):
                    v = self.ev(x.value, env, f)
                    if v[0] == "tuple":
                        items.extend(v[1])
                    else:
                        items.append(("star", v))
                else:
                    items.append(self.ev(x, env, f))
            return ("tuple", tuple(items))
        if isinstance(e, ast.Subscript):
            b = self.ev(e.value, env, f)
            i = self.ev(e.slice, env, f)
            if b[0] == "tuple" and i[0] == "const" and isinstance(i[1], int) and -len(b[1]) <= i[1] < len(b[1]):
                return b[1][i[1]]
            return ("item", b, i)
        if isinstance(e, ast.Slice):
            return ("slice", self.ev(e.lower, env, f) if e.lower else ("const", None),
                    self.ev(e.upper, env, f) if e.upper else ("const", None),
                    self.ev(e.step, env, f) if e.step else ("const", None))
        if isinstance(e, ast.BinOp):
            return ("binop", type(e.op).__name__, self.ev(e.left, env, f), self.ev(e.right, env, f))
        if isinstance(e, ast.UnaryOp):
            v = self.ev(e.operand, env, f)
            if isinstance(e.op, ast.USub) and v[0] == "const" and isinstance(v[1], (int, float)):
                return ("const", -v[1])
            return ("unop", type(e.op).__name__, v)
        if isinstance(e, (ast.Compare, ast.BoolOp)):
            return ("cmp", ast.unparse(e))
        if isinstance(e, ast.IfExp):
            st = self.static_test(e.test, env, f)
            if st is True:
                return self.ev(e.body, env, f)
            if st is False:
                return self.ev(e.orelse, env, f)
            return ("ite", ("cmp", ast.unparse(e.test)), self.ev(e.body, env, f), self.ev(e.orelse, env, f))
        if isinstance(e, ast.Lambda):
            return ("lambda", id(e), ast.unparse(e), e, dict(env), f)
        if isinstance(e, ast.Dict):
            return ("dict", tuple((ast.unparse(k) if k is not None else "**", self.ev(v, env, f)) for k, v in zip(e.keys, e.values)))
        if isinstance(e, ast.Call):
            return self.call(e, env, f)
        if isinstance(e, (ast.ListComp, ast.GeneratorExp, ast.JoinedStr, ast.DictComp)):
            return ("cmp", ast.unparse(e))
        if isinstance(e, ast.Starred):
            return ("star", self.ev(e.value, env, f))
        raise WUnsupported("expression %s" % type(e).__name__)

    def call(self, e, env, f):
        fn = self.ev(e.func, env, f)
        args = []
        for a in e.args:
            if isinstance(a, ast.Starred):
                v = self.ev(a.value, env, f)
                if v[0] == "tuple":
                    args.extend(v[1])
                else:
                    args.append(("star", v))
            else:
                args.append(self.ev(a, env, f))
        kwargs = tuple((k.arg, self.ev(k.value, env, f)) for k in e.keywords if k.arg is not None)
        return self.apply(fn, tuple(args), kwargs, f)

    def apply(self, fn, args, kwargs, f):
        k = fn[0]
        if k == "ext":
            name = fn[1]
            if name.endswith("functools.partial") or name == "functools.partial":
                return ("partial", args[0], args[1:], kwargs)
            if name.endswith("ArrayTypeFunctionMapping"):
                kw = dict(kwargs)
                names = ["numpy_func", "cupy_func", "dask_func", "dask_cupy_func"]
                for i, a in enumerate(args):
                    kw[names[i]] = a
                return ("mapping", (("numpy", kw.get("numpy_func")), ("dask", kw.get("dask_func"))))
            return ("call", fn, args, tuple(sorted((k2, v) for k2, v in kwargs if k2 not in ("meta", "name") or not name.startswith(("dask", "numpy")))))
        if k == "mapping":
            # mapper(agg) -> the function for this backend
            return dict(fn[1])[self.backend]
        if k == "partial":
            return self.apply(fn[1], fn[2] + args, fn[3] + kwargs, f)
        if k == "lambda":
            lam, lenv, lf = fn[3], fn[4], fn[5]
            env2 = dict(lenv)
            la = lam.args
            names = [x.arg for x in la.args]
            for i, a in enumerate(args):
                if i < len(names):
                    env2[names[i]] = a
            if la.vararg:
                env2[la.vararg.arg] = ("tuple", tuple(args[len(names):]))
            for k2, v in kwargs:
                env2[k2] = v
            return self.ev(lam.body, env2, lf)
        if k == "fn":
            g = self.get_fn(fn[1])
            if g is None:
                return ("call", fn, args, kwargs)
            if fn[1] in self.opaque or g.jitted or g.is_cuda:
                return ("call", fn, self.norm_args(g, args, kwargs)[0], self.norm_args(g, args, kwargs)[1])
            if any(a[0] == "star" for a in args):
                return ("call", fn, args, kwargs)
            try:
                return self.run_fn(g, args, kwargs)
            except WUnsupported:
                return ("call", fn, self.norm_args(g, args, kwargs)[0], self.norm_args(g, args, kwargs)[1])
        if k == "attr":
            # method call on an opaque object
            kw = tuple(sorted((k2, v) for k2, v in kwargs if k2 not in ("meta", "name")))
            return ("call", fn, args, kw)
        if k == "ite":
            return ("ite", fn[1], self.apply(fn[2], args, kwargs, f), self.apply(fn[3], args, kwargs, f))
        return ("call", fn, args, kwargs)

    def norm_args(self, g, args, kwargs):
        """normalise positional arguments of a package function to keywords through its real signature"""
        names = g.params
        kw = dict(kwargs)
        rest = []
        for i, a in enumerate(args):
            if i < len(names) and a[0] != "star":
                kw[names[i]] = a
            else:
                rest.append(a)
        return tuple(rest), tuple(sorted(kw.items()))


# ---------------------------------------------------------------------------- queries on terms
def subterms(t):
    yield t
    if isinstance(t, tuple):
        for x in t:
            if isinstance(x, tuple):
                yield from subterms(x)


def find_calls(t, pred):
    return [x for x in subterms(t) if isinstance(x, tuple) and x and x[0] == "call" and pred(x)]


def callee_name(c):
    f = c[1]
    if f[0] in ("fn", "ext"):
        return f[1]
    if f[0] == "attr":
        return "." + f[2]
    return None


def kwd(c, name, default=None):
    for k, v in c[3]:
        if k == name:
            return v
    return default


def evaluate_public(pkg, key, backend, opaque=()):
    f = None
    for g in pkg.fns.values():
        if g.key == key:
            f = g
    if f is None:
        raise WUnsupported("function %s not found" % key)
    ev = Evaluator(pkg, backend, opaque)
    a = f.node.args
    names = [x.arg for x in a.posonlyargs + a.args]
    args = tuple(("param", n) for n in names)
    env_kwonly = tuple((x.arg, ("param", x.arg)) for x in a.kwonlyargs)
    t = ev.run_fn(f, args, env_kwonly)
    return t, ev
