"""python3-vt -m pyvc.check <Cxx> [--tier quick|thorough]

Regenerates every obligation of the property from /repo's working tree,
discharges them, runs the property's bounded stand-ins, rewrites
/verif/evidence/<Cxx>.json and exits:
  0  every obligation discharged, every stand-in passed (known findings printed)
  1  a named obligation failed / a stand-in found a failing input  -> VIOLATION line
  2  undecided: the contracts no longer attach to the code and no failing input was found
  3  the checker itself failed (tool missing, internal error)
"""
import argparse
import importlib
import json
import os
import re
import sys
import time
import traceback

import z3

from . import VERIF, REPO, symex, discharge, replay
from .contract import REGISTRY, LEMMAS

LEDGER = os.path.join(VERIF, "contracts", "ledger.json")
OUT = os.environ.get("PYVC_OUT", VERIF)
FINDINGS = os.path.join(VERIF, "known_findings.jsonl")
CLAUSE_KINDS = ("ensures", "inv-init", "inv-preserve", "loop-post", "requires@call", "raises", "decreases", "lemma",
                "wrapper", "frame-ok", "reach")


def norm_id(oid):
    oid = re.sub(r"~\d+$", "", oid)
    oid = re.sub(r"@L-?\d+", "", oid)
    return oid


class Item:
    """one unit of evidence: a discharged obligation, a bounded stand-in run, or an assumption"""

    def __init__(self, iid, label, status, seconds=0.0, detail="", backend="", lineno=None, desc="", replay=None,
                 contract=None, obligation=None, stats=None):
        self.iid = iid
        self.label = label          # proved | bounded | assumed
        self.status = status        # ok | failed | unknown | error
        self.seconds = seconds
        self.detail = detail
        self.backend = backend
        self.lineno = lineno
        self.desc = desc
        self.replay = replay
        self.contract = contract
        self.obligation = obligation
        self.stats = stats or {}


def load_findings():
    out = []
    if os.path.exists(FINDINGS):
        for l in open(FINDINGS):
            l = l.strip()
            if l and not l.startswith("#"):
                out.append(json.loads(l))
    return out


def main(argv=None):
    if argv is None and os.environ.get("PYTHONHASHSEED") != "0":
        # string hashing is randomised per process; it changes the order in which terms are built and with it the solver's
        # search.  A fixed seed makes the obligations' SMT text - and so the verdicts - reproducible from run to run.
        os.environ["PYTHONHASHSEED"] = "0"
        os.execv(sys.executable, [sys.executable, "-m", "pyvc.check"] + sys.argv[1:])
    ap = argparse.ArgumentParser()
    ap.add_argument("prop")
    ap.add_argument("--tier", default=os.environ.get("VERIF_TIER", "quick"))
    ap.add_argument("--update-ledger", action="store_true")
    ap.add_argument("--no-bounded", action="store_true")
    ap.add_argument("--verbose", "-v", action="store_true")
    a = ap.parse_args(argv)
    tier = a.tier if a.tier in ("quick", "thorough") else "quick"
    seed = int(os.environ.get("VERIF_SEED", "0") or 0)
    t0 = time.time()
    try:
        rc = run(a.prop, tier, seed, a, t0)
    except SystemExit:
        raise
    except Exception:
        traceback.print_exc()
        print("CHECKER-ERROR property=%s (exit 3; not a verdict about the code)" % a.prop)
        sys.exit(3)
    sys.exit(rc)


def run(pid, tier, seed, a, t0):
    sys.path.insert(0, VERIF)
    import contracts.all  # noqa: F401
    props = importlib.import_module("contracts.props")
    P = props.PROPS[pid]
    specmod = importlib.import_module("contracts.specs")
    symex.reset_modules()

    items = []
    structural = []          # contracts that no longer attach
    functions = []
    # ------------------------------------------------------------- 1. contracts -> obligations
    allobls = []
    cons = [c for c in REGISTRY.values() if pid in c.props]
    by_contract = {}
    from . import values as _values
    for c in cons:
        try:
            _values.reset_names()
            symex._cell_ctr[0] = 0
            symex.OPAQUE_DEFS.clear()
            ex = symex.Executor(c, specmod)
            if c.options.get("trusted"):
                # a contract that is assumed, not verified (its body is outside the subset); it must still name a real function
                if ex.fnode is None:
                    raise symex.ContractMismatch("function %s not found in %s" % (c.qualname, c.module))
                o = symex.Obligation(c.key, "assumed", "trusted-contract", ex.fnode.lineno, [], z3.BoolVal(True), "; ".join(c.ensures))
                o.assumed = c.options["trusted"]
                obls = [o]
            else:
                obls = ex.run()
            if not obls:
                raise symex.ContractMismatch("no obligations generated for %s" % c.key)
            for o in obls:
                o.contract = c
            by_contract[c.key] = obls
            allobls.extend(obls)
            if not c.options.get("trusted"):
                functions.append(c.key)     # a trusted (assumed) contract is not a function under contract
            if a.verbose:
                print("  gen %-45s %4d obligations" % (c.key, len(obls)))
        except (symex.ContractMismatch, symex.Unsupported) as e:
            structural.append((c, e))
            if a.verbose:
                print("  gen %-45s DOES NOT ATTACH: %s" % (c.key, e))
    # ------------------------------------------------------------- 2. lemmas
    lemma_obls = []
    for lm in LEMMAS.values():
        if pid in lm.props:
            _values.reset_names()
            symex._cell_ctr[0] = 0
            symex.OPAQUE_DEFS.clear()
            S = symex.SpecCtx(specmod, lm.axioms)
            for sub, hyps, goal in lm.build(S):
                o = symex.Obligation("lemma", "lemma", "%s.%s" % (lm.name, sub), None, hyps, goal, lm.notes)
                o.contract = None
                o.timeout = lm.timeout
                o.defs = S.ex.defs
                o.axioms = tuple(sorted(set(lm.axioms) | set(S.axioms)))
                lemma_obls.append(o)
    allobls.extend(lemma_obls)
    # ------------------------------------------------------------- 3. extra obligation producers (wrappers, frames)
    for prod in P.get("producers", []):
        fn = getattr(importlib.import_module(prod[0]), prod[1])
        res = fn(pid, tier)
        items.extend(res)
    timeout = P.get("timeout", 120)
    _ledger0 = json.load(open(LEDGER)) if os.path.exists(LEDGER) else {}
    _hints = _ledger0.get("tiers", {})
    for o in allobls:
        h = _hints.get(o.oid)
        if h is not None:
            o.hint = h
    assumed_obls = [o for o in allobls if getattr(o, "assumed", None)]
    allobls = [o for o in allobls if not getattr(o, "assumed", None)]
    for o in assumed_obls:
        items.append(Item(o.oid, "assumed", "ok", 0.0, o.assumed, "assumed", o.lineno, o.desc, contract=getattr(o, "contract", None)))
    solver_s = discharge.discharge(allobls, timeout_s=timeout)
    xcheck = None
    if tier == "thorough" and not P.get("no_crosscheck"):
        # the cross-check re-discharges every proved obligation with two other solvers; each gets a fixed, modest budget per
        # obligation (an `unknown` there is recorded, not a failure), so that the thorough tier stays within tens of minutes
        xcheck = discharge.cross_check(allobls, timeout_s=min(timeout, 60))
        for sv, r in xcheck.items():
            if r["disagree"]:
                print("CHECKER-ERROR solver disagreement %s: %s" % (sv, r["disagree"]))
                return 3
    for o in allobls:
        if o.status == "error":
            print("CHECKER-ERROR %s: %s" % (o.oid, o.detail))
            return 3
        st = {"proved": "ok", "failed": "failed", "unknown": "unknown"}[o.status]
        items.append(Item(o.oid, "proved", st, o.seconds, o.detail, o.backend, o.lineno, o.desc,
                          contract=getattr(o, "contract", None), obligation=o))

    # ------------------------------------------------------------- 4. bounded stand-ins
    bounded = []
    # a stand-in that crashes or hangs (e.g. a changed loop that no longer terminates) must not mask named obligations that already
    # failed: then it is recorded and the verdict comes from the obligations; otherwise it is a checker error as before
    proof_failed = any(i.label == "proved" and i.status in ("failed", "unknown") for i in items)
    if not a.no_bounded:
        budget = P.get("fuzz_budget", {"quick": 6, "thorough": 40})[tier]
        import concurrent.futures as cf
        jobs = []
        with cf.ThreadPoolExecutor(max_workers=8) as pool:
            for c in cons:
                if (c.native or {}).get("skip"):
                    continue
                jobs.append((c, pool.submit(replay.fuzz, c, seed, 10 ** 9, budget, (c.native or {}).get("fuzz_jit", False))))
            extra = []
            for name, opts in P.get("bounded", []):
                b = opts.get(tier, opts.get("quick", 10))
                extra.append((name, pool.submit(replay.api_standin, name, seed, b, tier, opts.get("jit", False))))
            for c, fut in jobs:
                try:
                    r = fut.result()
                except Exception as e:
                    if proof_failed:
                        print("NOTE bounded stand-in for %s crashed (%s); verdict taken from the failed obligations" % (c.key, str(e)[:200]))
                        continue
                    print("CHECKER-ERROR bounded stand-in for %s crashed: %s" % (c.key, e))
                    return 3
                iid = "bounded:%s" % c.key
                if r["status"] == "fail":
                    items.append(Item(iid, "bounded", "failed", detail="clause %s: %s" % (r["clause"], json.dumps(r.get("info"))[:600]),
                                      replay={"contract": c.key, "args": r["args"], "clause": r["clause"], "native": r.get("info"),
                                              "jit": False}, contract=c, stats=r["stats"]))
                else:
                    items.append(Item(iid, "bounded", "ok", r.get("wall_s", 0), stats=dict(r["stats"], samples=r["samples"]), contract=c))
            for name, fut in extra:
                try:
                    r = fut.result()
                except Exception as e:
                    if proof_failed:
                        print("NOTE bounded stand-in %s crashed (%s); verdict taken from the failed obligations" % (name, str(e)[:200]))
                        continue
                    traceback.print_exc()
                    print("CHECKER-ERROR bounded stand-in %s crashed: %s" % (name, e))
                    return 3
                if r["status"] == "error":
                    if proof_failed:
                        print("NOTE bounded stand-in %s crashed; verdict taken from the failed obligations" % name)
                        continue
                    print("CHECKER-ERROR bounded stand-in %s crashed:\n%s" % (name, r["error"]))
                    return 3
                iid = "bounded-api:%s" % name
                stats = {"evaluations": r.get("evaluations", 0), "distinct": r.get("distinct", 0), "samples": r.get("samples", []),
                         "bound": r.get("bound", ""), "exhaustive": r.get("exhaustive", False)}
                if r["status"] == "fail":
                    items.append(Item(iid, "bounded", "failed", r.get("wall_s", 0), detail=r["failure"][:1500], stats=stats,
                                      replay={"kind": "api", "standin": name, "args": r["case"], "failure": r["failure"]}))
                else:
                    items.append(Item(iid, "bounded", "ok", r.get("wall_s", 0), stats=stats))

    # reachability of preconditions: a concrete native input that satisfies every `requires` is a witness
    for it in items:
        if it.obligation is not None and it.obligation.expect_sat and it.status == "unknown" and it.contract is not None:
            fz = [i for i in items if i.iid == "bounded:%s" % it.contract.key]
            if fz and fz[0].stats.get("evaluations", 0) - fz[0].stats.get("skip", 0) > 0:
                it.status = "ok"
                it.backend = "native-witness"
                it.detail += " | satisfiable: %d concrete inputs passed every requires in the bounded run" % (
                    fz[0].stats["evaluations"] - fz[0].stats["skip"])

    # ------------------------------------------------------------- ledger
    def clause_kind(iid):
        return any((":%s:" % k) in iid for k in CLAUSE_KINDS)
    proved_ids = sorted({norm_id(i.iid) for i in items if i.label == "proved" and i.status == "ok" and clause_kind(i.iid)})
    ledger = json.load(open(LEDGER)) if os.path.exists(LEDGER) else {}
    if a.update_ledger:
        ledger[pid] = proved_ids
        tiers = ledger.setdefault("tiers", {})
        for i in items:
            if i.label == "proved" and i.status == "ok" and i.obligation is not None:
                if "[cvc5/qf]" in (i.detail or ""):
                    tiers[i.iid] = "cq"
                    continue
                mc = re.search(r"\[cvc5/tier(\d)\]", i.detail or "")
                if mc:
                    tiers[i.iid] = "c" + mc.group(1)
                    continue
                if "[tier0/qf]" in (i.detail or ""):
                    if (i.seconds or 0) > 1.0 or i.iid in tiers:
                        tiers[i.iid] = "q"
                    continue
                mt = re.search(r"\[tier(\d)(/default)?", i.detail or "")
                nid = i.iid
                if mt and int(mt.group(1)) > 0:
                    tiers[nid] = "2d" if (mt.group(2) and mt.group(1) == "2") else int(mt.group(1))
                elif mt and ((i.seconds or 0) > 3.0 or nid in tiers):
                    # plain tier 0: if it was slow (the quantifier-free attempt used its budget first) or already hinted, say so -
                    # a hint is never dropped again, otherwise the ledger flips between two states from run to run
                    tiers[nid] = 0
        json.dump(ledger, open(LEDGER, "w"), indent=0, sort_keys=True)
        print("ledger updated: %d obligation ids for %s" % (len(proved_ids), pid))
    missing = [i for i in ledger.get(pid, []) if isinstance(ledger.get(pid), list) and i not in proved_ids]
    gen_ids = {norm_id(i.iid) for i in items if i.label == "proved"}
    for m in missing:
        if m not in gen_ids:
            # was in the ledger, is no longer generated at all
            fnkey = m.split(":")[0] + ":" + m.split(":")[1] if m.count(":") >= 2 else m
            if any(c.key == fnkey for c, _ in structural):
                continue      # reported once, as structural
            items.append(Item(m, "proved", "failed", detail="obligation of the committed ledger was not generated from the current source (not-generated)"))

    # ------------------------------------------------------------- 5. failures -> replay search
    findings = load_findings()
    violations = []
    known = []
    os.makedirs(os.path.join(OUT, "replays"), exist_ok=True)
    failed_items = [i for i in items if i.status in ("failed", "unknown")]
    model_budget = {}
    # a structural mismatch is decided by the stand-in of that function
    for c, e in structural:
        fz = [i for i in items if i.iid == "bounded:%s" % c.key]
        if not any(i.status == "failed" for i in fz):
            pass
    for it in failed_items:
        rec = {"property": pid, "obligation": it.iid, "line": it.lineno, "clause": it.desc, "solver_output": it.detail,
               "function": it.contract.key if it.contract else None, "tree": REPO}
        found = False
        if it.replay:
            rec.update(it.replay)
            found = True
        elif it.obligation is not None and it.contract is not None and not it.obligation.expect_sat:
            # directed search first: the function's own bounded stand-in already ran
            fz = [i for i in items if i.iid == "bounded:%s" % it.contract.key and i.status == "failed"]
            if fz:
                rec.update(fz[0].replay)
                rec["how"] = "directed bounded search on the failing function"
                found = True
            elif model_budget.get(it.contract.key, 0) < 2:
                model_budget[it.contract.key] = model_budget.get(it.contract.key, 0) + 1
                try:
                    rr = replay.replay_failed(it.contract, it.obligation, timeout_s=10)
                except Exception as e:
                    rr = {"found": False, "tried": ["replay crashed: %r" % e]}
                if rr.get("found"):
                    rec.update({"contract": it.contract.key, "args": rr["args"], "native": rr["native"], "how": rr["how"]})
                    found = True
                else:
                    rec["replay_attempts"] = rr.get("tried")
        rec["found_input"] = found
        sig = finding_match(findings, pid, it, rec)
        if sig is not None:
            known.append((it, sig))
            continue
        path = os.path.join(OUT, "replays", "%s-%s.json" % (pid, re.sub(r"[^A-Za-z0-9_.-]+", "_", it.iid)[:120]))
        json.dump(rec, open(path, "w"), indent=1, default=str)
        violations.append((it, path, found))

    undecided = []
    for c, e in structural:
        fz = [i for i in items if i.iid == "bounded:%s" % c.key and i.status == "failed"]
        if fz:
            continue       # already a violation with a replayed input
        undecided.append((c, e))

    # ------------------------------------------------------------- 6. report
    nprov = sum(1 for i in items if i.label == "proved")
    ndis = sum(1 for i in items if i.label == "proved" and i.status == "ok")
    for it, sig in known:
        print("KNOWN-FINDING: property=%s %s" % (pid, sig["what"]))
    printed = set()
    for it, path, found in violations:
        print("FAILED %s [%s] line=%s %s :: %s" % (it.iid, it.label, it.lineno, it.detail[:200], (it.desc or "")[:160]))
    for it, path, found in violations:
        if path in printed:
            continue
        printed.add(path)
        print("VIOLATION property=%s replay=%s%s" % (pid, path, "" if found else " no-failing-input-found"))
    for c, e in undecided:
        print("UNDECIDED property=%s contract %s does not attach to the current source: %s" % (pid, c.key, e))
    write_evidence(pid, P, tier, seed, items, functions, solver_s, xcheck, structural, known, violations, time.time() - t0)
    print("%s %s: %d/%d obligations discharged, %d bounded stand-ins, %d violations, %d known findings, %.1fs" % (
        pid, tier, ndis, nprov, sum(1 for i in items if i.label == "bounded"), len(violations), len(known), time.time() - t0))
    if violations:
        return 1
    if undecided:
        return 2
    if nprov == 0 and not (P.get("allow_no_obligations") or P.get("allow_no_contracts")):
        print("CHECKER-ERROR no obligations generated for %s" % pid)
        return 3
    return 0


def finding_match(findings, pid, it, rec):
    for f in findings:
        if f.get("type") != "finding" or f.get("property") != pid:
            continue
        m = f.get("match", {})
        if "obligation" in m and norm_id(it.iid) != m["obligation"] and not re.fullmatch(m["obligation"], norm_id(it.iid)):
            continue
        if "clause" in m and m["clause"] not in (rec.get("clause") or ""):
            continue
        if "detail_re" in m and not re.search(m["detail_re"], it.detail or ""):
            continue
        return f
    return None


def write_evidence(pid, P, tier, seed, items, functions, solver_s, xcheck, structural, known, violations, wall):
    proved = [i for i in items if i.label == "proved"]
    bounded = [i for i in items if i.label == "bounded"]
    by_backend = {}
    for i in proved:
        if i.status == "ok":
            by_backend[i.backend or "?"] = by_backend.get(i.backend or "?", 0) + 1
    samples = []
    for i in proved[:400]:
        if i.status == "ok" and i.backend != "trivial" and len(samples) < 12:
            samples.append({"obligation": i.iid, "source_line": i.lineno, "clause": (i.desc or "")[:200], "backend": i.backend,
                            "seconds": round(i.seconds, 3)})
    bs = []
    for i in bounded:
        bs.append({"id": i.iid, "status": i.status, "bound": i.stats.get("bound", ""),
                   "cases": i.stats.get("evaluations", 0), "distinct": i.stats.get("distinct", 0),
                   "skipped_by_requires": i.stats.get("skip", 0), "samples": i.stats.get("samples", [])[:2],
                   "seconds": round(i.seconds, 2)})
    level = P["level"] if proved else "exploration"
    cov = {
        "obligations": len(proved),
        "discharged": sum(1 for i in proved if i.status == "ok"),
        "checker_cmd": "python3-vt -m pyvc.check %s --tier %s" % (pid, tier),
        "trusted_base": P.get("trusted_base", []) + GLOBAL_TRUSTED,
        "functions_under_contract": functions,
        "by_backend": by_backend,
        "solver_seconds": round(solver_s, 2),
        "cross_check": xcheck,
        "float_model": P.get("float_model", "XR: NaN | +Inf | -Inf | Fin(Real); no rounding (machine arithmetic treated as mathematical)"),
        "bounded_standins": bs,
        "evaluations": sum(b["cases"] for b in bs),
        "distinct_nontrivial": sum(b["distinct"] for b in bs),
        "rule": "bounded stand-ins: inputs drawn per contract parameter types from small shapes and a value pool with NaN/inf/ties, "
                "filtered by the contract's requires; distinct = distinct argument tuples that passed requires; "
                "these are labelled bounded and never counted in obligations/discharged",
        "not_decided": P.get("not_decided", []),
        "assumed_obligations": [{"id": i.iid, "clause": (i.desc or "")[:200], "reason": i.detail} for i in items if i.label == "assumed"],
        "samples": samples or [{"note": "no non-trivial obligation"}],
        "contracts_not_attached": [{"function": c.key, "reason": str(e)} for c, e in structural],
        "known_findings_matched": [s["what"] for _, s in known],
        "failed": [{"id": i.iid, "label": i.label, "status": i.status, "detail": i.detail[:300]} for i, _, _ in violations],
    }
    ev = {
        "property_id": pid,
        "tier": tier,
        "seed": seed,
        "level": level,
        "coverage": cov,
        "assumptions": P.get("assumptions", []) + GLOBAL_ASSUMPTIONS,
        "wall_s": round(wall, 2),
        "violations": len(violations),
    }
    os.makedirs(os.path.join(OUT, "evidence"), exist_ok=True)
    json.dump(ev, open(os.path.join(OUT, "evidence", "%s.json" % pid), "w"), indent=1, default=str)


GLOBAL_TRUSTED = [
    "pyvc itself (AST -> VC generator in /verif/pyvc, ~2k lines, unverified; self-tested by seeded mutants and concrete replays)",
    "z3 5.1 (python3-vt); /usr/bin/cvc5 1.0 as second back end on the same SMT-LIB text for obligations z3 leaves unknown (only `unsat` is taken from it; by_backend says which obligations); thorough tier re-discharges everything through SMT-LIB with cvc5 and /usr/bin/z3 4.8",
    "Numba compiles the Python semantics pyvc encodes (prange sequential, no parallel=True); CPython/NumPy semantics as listed in DESIGN 2.2",
]
GLOBAL_ASSUMPTIONS = [
    "integers are mathematical (no int64 overflow; array dimensions < 2^31)",
    "floats follow the XR model unless a lemma says 'exact IEEE': special values exact, finite arithmetic without rounding/overflow",
    "array parameters of one call do not alias each other unless the contract says so",
    "CUDA/CuPy/RTX back ends are outside every claim (no GPU in the sandbox)",
]

if __name__ == "__main__":
    main()
