"""verify contracts: generate obligations from the real source and discharge them"""
import time
import importlib
import z3
from . import symex, discharge
from .contract import REGISTRY


def load_contracts():
    import contracts.all  # noqa: F401
    return REGISTRY


def specmod():
    return importlib.import_module("contracts.specs")


def gen(contract):
    from . import values
    values.reset_names()
    symex._cell_ctr[0] = 0
    symex.OPAQUE_DEFS.clear()
    ex = symex.Executor(contract, specmod())
    obls = ex.run()
    return obls, ex


def verify(contracts, timeout_s=60, verbose=False):
    allobls = []
    errors = []
    for c in contracts:
        t0 = time.time()
        try:
            obls, ex = gen(c)
        except (symex.ContractMismatch, symex.Unsupported) as e:
            errors.append((c, e))
            if verbose:
                print("  [gen] %-40s ERROR %s" % (c.key, e))
            continue
        if verbose:
            print("  [gen] %-40s %3d obligations  %.2fs" % (c.key, len(obls), time.time() - t0))
        allobls.extend(obls)
    secs = discharge.discharge(allobls, timeout_s)
    return allobls, errors, secs
