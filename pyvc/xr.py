"""XR float model: datatype F = NaN | +Inf | -Inf | Fin(Real) with IEEE
special-value rules and *no rounding* (machine arithmetic treated as
mathematical; signed zeros identified).  DESIGN.md 2.2.

Transcendental functions are uninterpreted functions on Real with listed
axioms (AXIOMS); every proof that uses one names it in its trusted base.
"""
import z3

F = z3.Datatype("F")
F.declare("nan")
F.declare("pinf")
F.declare("ninf")
F.declare("fin", ("val", z3.RealSort()))
F = F.create()

NAN = F.nan
PINF = F.pinf
NINF = F.ninf


def fin(r):
    if isinstance(r, (int, float)):
        r = z3.RealVal(repr(r) if isinstance(r, float) else r)
    return F.fin(r)


def is_nan(a):
    return F.is_nan(a)


def is_fin(a):
    return F.is_fin(a)


def is_pinf(a):
    return F.is_pinf(a)


def is_ninf(a):
    return F.is_ninf(a)


def val(a):
    return F.val(a)


def from_int(i):
    return F.fin(z3.ToReal(i))


def const(x):
    """python float -> F term"""
    import math
    if isinstance(x, bool):
        x = int(x)
    if isinstance(x, int):
        return F.fin(z3.RealVal(x))
    if math.isnan(x):
        return NAN
    if math.isinf(x):
        return PINF if x > 0 else NINF
    # exact decimal literal as written in the source: use repr -> rational
    from fractions import Fraction
    fr = Fraction(repr(x))
    return F.fin(z3.Q(fr.numerator, fr.denominator))


# ---------------------------------------------------------------------------
# Arithmetic and comparisons are *function symbols* with definitional axioms
# (DEFS).  The discharger first tries an obligation with the symbols left
# uninterpreted (pure congruence: sound, and enough when code and spec have the
# same shape), then with the definitions as E-matching axioms, then with the
# definitions expanded in place.
def _rat(a):
    """rational literal value of fin(c) terms, else None"""
    try:
        if z3.is_app(a) and a.decl().name() == "fin" and z3.is_rational_value(a.arg(0)):
            return a.arg(0)
    except Exception:
        pass
    return None


def neg_def(a):
    return z3.If(is_fin(a), F.fin(-val(a)),
                 z3.If(is_pinf(a), NINF, z3.If(is_ninf(a), PINF, NAN)))


def add_def(a, b):
    return z3.If(z3.Or(is_nan(a), is_nan(b)), NAN,
                 z3.If(z3.And(is_fin(a), is_fin(b)), F.fin(val(a) + val(b)),
                       z3.If(is_fin(a), b,
                             z3.If(is_fin(b), a,
                                   z3.If(a == b, a, NAN)))))


def _sign_pos(a):
    # a is non-nan, non-zero: is it positive?
    return z3.If(is_fin(a), val(a) > 0, is_pinf(a))


def _is_zero(a):
    return z3.And(is_fin(a), val(a) == 0)


def mul_def(a, b):
    return z3.If(z3.Or(is_nan(a), is_nan(b)), NAN,
                 z3.If(z3.And(is_fin(a), is_fin(b)), F.fin(val(a) * val(b)),
                       z3.If(z3.Or(_is_zero(a), _is_zero(b)), NAN,
                             z3.If(_sign_pos(a) == _sign_pos(b), PINF, NINF))))


def div_def(a, b):
    """IEEE (NumPy array) division.  Scalar Python/Numba division by zero
    raises instead; the executor generates that obligation separately."""
    return z3.If(z3.Or(is_nan(a), is_nan(b)), NAN,
                 z3.If(z3.And(is_fin(a), is_fin(b)),
                       z3.If(val(b) == 0,
                             z3.If(val(a) == 0, NAN, z3.If(val(a) > 0, PINF, NINF)),
                             F.fin(val(a) / val(b))),
                       z3.If(is_fin(a), F.fin(z3.RealVal(0)),          # fin / inf
                             z3.If(is_fin(b),                            # inf / fin
                                   z3.If(z3.Or(val(b) > 0, val(b) == 0) == is_pinf(a), PINF, NINF),
                                   NAN))))                               # inf / inf


def lt_def(a, b):
    return z3.And(z3.Not(is_nan(a)), z3.Not(is_nan(b)),
                  z3.If(z3.And(is_fin(a), is_fin(b)), val(a) < val(b),
                        z3.If(is_ninf(a), z3.Not(is_ninf(b)),
                              z3.If(is_pinf(b), z3.Not(is_pinf(a)), False))))


def le_def(a, b):
    return z3.And(z3.Not(is_nan(a)), z3.Not(is_nan(b)),
                  z3.If(z3.And(is_fin(a), is_fin(b)), val(a) <= val(b),
                        z3.Or(is_ninf(a), is_pinf(b))))


f_neg = z3.Function("xr_neg", F, F)
f_add = z3.Function("xr_add", F, F, F)
f_mul = z3.Function("xr_mul", F, F, F)
f_div = z3.Function("xr_div", F, F, F)
f_lt = z3.Function("xr_lt", F, F, z3.BoolSort())
f_le = z3.Function("xr_le", F, F, z3.BoolSort())


def neg(a):
    r = _rat(a)
    if r is not None:
        return F.fin(z3.simplify(-r))
    if z3.eq(a, NAN):
        return NAN
    if z3.eq(a, PINF):
        return NINF
    if z3.eq(a, NINF):
        return PINF
    return f_neg(a)


def _fold(a, b, op):
    ra, rb = _rat(a), _rat(b)
    if ra is not None and rb is not None:
        return F.fin(z3.simplify(op(ra, rb)))
    return None


def add(a, b):
    f = _fold(a, b, lambda x, y: x + y)
    return f if f is not None else f_add(a, b)


def sub(a, b):
    return add(a, neg(b))


def mul(a, b):
    f = _fold(a, b, lambda x, y: x * y)
    return f if f is not None else f_mul(a, b)


def div(a, b):
    rb = _rat(b)
    if rb is not None and not z3.is_true(z3.simplify(rb == 0)):
        f = _fold(a, b, lambda x, y: x / y)
        if f is not None:
            return f
    return f_div(a, b)


def lt(a, b):
    ra, rb = _rat(a), _rat(b)
    if ra is not None and rb is not None:
        return z3.simplify(ra < rb)
    return f_lt(a, b)


def le(a, b):
    ra, rb = _rat(a), _rat(b)
    if ra is not None and rb is not None:
        return z3.simplify(ra <= rb)
    return f_le(a, b)


def gt(a, b):
    return lt(b, a)


def ge(a, b):
    return le(b, a)


def eq(a, b):
    return z3.And(z3.Not(is_nan(a)), a == b)


def ne(a, b):
    return z3.Not(eq(a, b))


def fabs(a):
    return z3.If(is_fin(a), F.fin(z3.If(val(a) >= 0, val(a), -val(a))),
                 z3.If(is_nan(a), NAN, PINF))


def fmin2(a, b):
    """Python builtin min(a, b) semantics: b if b < a else a"""
    return z3.If(lt(b, a), b, a)


def fmax2(a, b):
    """Python builtin max(a, b): b if b > a else a"""
    return z3.If(gt(b, a), b, a)


def op_defs():
    """definitional axioms of the arithmetic symbols, as (function, bound vars, body)"""
    a, b = z3.Consts("xr!a xr!b", F)
    return [
        (f_neg, [a], neg_def(a)),
        (f_add, [a, b], add_def(a, b)),
        (f_mul, [a, b], mul_def(a, b)),
        (f_div, [a, b], div_def(a, b)),
        (f_lt, [a, b], lt_def(a, b)),
        (f_le, [a, b], le_def(a, b)),
    ]


def op_axioms():
    return [z3.ForAll(vs, f(*vs) == body, patterns=[f(*vs)]) for f, vs, body in op_defs()]


def expand_ops(t):
    """replace every arithmetic symbol application by its definition (eager form)"""
    pairs = []
    for f, vs, body in op_defs():
        # body over de Bruijn variables: Var(i) is the i-th argument
        sub = z3.substitute(body, *[(v, z3.Var(i, F)) for i, v in enumerate(vs)])
        pairs.append((f, sub))
    return z3.substitute_funs(t, *pairs)


# ---------------------------------------------------------------- math UFs
R = z3.RealSort()
u_sqrt = z3.Function("xr_sqrt", R, R)
u_atan = z3.Function("xr_atan", R, R)
u_atan2 = z3.Function("xr_atan2", R, R, R)
u_sin = z3.Function("xr_sin", R, R)
u_cos = z3.Function("xr_cos", R, R)
u_asin = z3.Function("xr_asin", R, R)
u_exp = z3.Function("xr_exp", R, R)
u_tan = z3.Function("xr_tan", R, R)
u_pow = z3.Function("xr_pow", R, R, R)
u_log = z3.Function("xr_log", R, R)

u_atan2inf = z3.Function("xr_atan2inf", F, F, R)

# rational enclosure of pi
PI_LO = z3.Q(314159265358979, 100000000000000)
PI_HI = z3.Q(314159265358980, 100000000000000)
PI = z3.Real("xr_pi")


def axioms(names):
    """Return the list of axiom formulas for the named transcendental facts."""
    x, y = z3.Reals("ax_x ax_y")
    fa, fb = z3.Consts("ax_fa ax_fb", F)
    A = {
        "pi": [PI > PI_LO, PI < PI_HI],
        "sqrt": [z3.ForAll([x], z3.Implies(x >= 0, z3.And(u_sqrt(x) >= 0, u_sqrt(x) * u_sqrt(x) == x)),
                           patterns=[u_sqrt(x)])],
        # derived fact (proved as lemma XR.sqrt_sq from the defining axiom): sqrt(d*d) = d for d >= 0
        "sqrt_sq": [z3.ForAll([x], z3.Implies(x >= 0, u_sqrt(x * x) == x), patterns=[u_sqrt(x * x)])],
        "sqrt_mono": [z3.ForAll([x, y], z3.Implies(z3.And(0 <= x, x <= y), u_sqrt(x) <= u_sqrt(y)),
                                patterns=[z3.MultiPattern(u_sqrt(x), u_sqrt(y))])],
        "atan_range": [z3.ForAll([x], z3.And(u_atan(x) > -PI / 2, u_atan(x) < PI / 2), patterns=[u_atan(x)])],
        "atan_sign": [z3.ForAll([x], z3.And(z3.Implies(x >= 0, u_atan(x) >= 0), z3.Implies(x <= 0, u_atan(x) <= 0),
                                            z3.Implies(x == 0, u_atan(x) == 0)),
                                patterns=[u_atan(x)])],
        "atan_sign_strict": [z3.ForAll([x], z3.And(z3.Implies(x > 0, u_atan(x) > 0), z3.Implies(x < 0, u_atan(x) < 0),
                                                   z3.Implies(x == 0, u_atan(x) == 0)), patterns=[u_atan(x)])],
        "atan_odd": [z3.ForAll([x], u_atan(-x) == -u_atan(x), patterns=[u_atan(-x)])],
        "atan_mono": [z3.ForAll([x, y], z3.Implies(x <= y, u_atan(x) <= u_atan(y)),
                                patterns=[z3.MultiPattern(u_atan(x), u_atan(y))])],
        "sincos": [z3.ForAll([x], z3.And(u_sin(x) * u_sin(x) + u_cos(x) * u_cos(x) == 1,
                                         u_sin(x) >= -1, u_sin(x) <= 1, u_cos(x) >= -1, u_cos(x) <= 1),
                             patterns=[u_sin(x)]),
                   z3.ForAll([x], z3.And(u_sin(x) * u_sin(x) + u_cos(x) * u_cos(x) == 1,
                                         u_sin(x) >= -1, u_sin(x) <= 1, u_cos(x) >= -1, u_cos(x) <= 1),
                             patterns=[u_cos(x)])],
        "atan2_range": [z3.ForAll([y, x], z3.And(u_atan2(y, x) >= -PI, u_atan2(y, x) <= PI),
                                  patterns=[u_atan2(y, x)]),
                        z3.ForAll([fa, fb], z3.And(u_atan2inf(fa, fb) >= -PI, u_atan2inf(fa, fb) <= PI),
                                  patterns=[u_atan2inf(fa, fb)])],
        # quadrant rules
        "atan2_quadrant": [z3.ForAll([y, x], z3.And(
            z3.Implies(z3.And(y == 0, x > 0), u_atan2(y, x) == 0),
            z3.Implies(z3.And(y == 0, x == 0), u_atan2(y, x) == 0),
            z3.Implies(z3.And(y == 0, x < 0), u_atan2(y, x) == PI),
            z3.Implies(z3.And(y > 0, x == 0), u_atan2(y, x) == PI / 2),
            z3.Implies(z3.And(y < 0, x == 0), u_atan2(y, x) == -PI / 2),
            z3.Implies(z3.And(y > 0, x > 0), z3.And(u_atan2(y, x) > 0, u_atan2(y, x) < PI / 2)),
            z3.Implies(z3.And(y > 0, x < 0), z3.And(u_atan2(y, x) > PI / 2, u_atan2(y, x) < PI)),
            z3.Implies(z3.And(y < 0, x > 0), z3.And(u_atan2(y, x) < 0, u_atan2(y, x) > -PI / 2)),
            z3.Implies(z3.And(y < 0, x < 0), z3.And(u_atan2(y, x) < -PI / 2, u_atan2(y, x) > -PI)),
        ), patterns=[u_atan2(y, x)])],
        # quarter turn: rotating the vector (x, y) by +90deg -> (-y, x) adds pi/2 (mod 2pi)
        "atan2_quarter": [z3.ForAll([y, x], z3.Implies(z3.Or(x != 0, y != 0), z3.Or(
            u_atan2(x, -y) == u_atan2(y, x) + PI / 2,
            u_atan2(x, -y) == u_atan2(y, x) + PI / 2 - 2 * PI)),
            patterns=[u_atan2(y, x)])],
        "asin_range": [z3.ForAll([x], z3.Implies(z3.And(x >= -1, x <= 1),
                                                 z3.And(u_asin(x) >= -PI / 2, u_asin(x) <= PI / 2)),
                                 patterns=[u_asin(x)])],
        "exp_pos": [z3.ForAll([x], u_exp(x) > 0, patterns=[u_exp(x)])],
    }
    out = []
    for n in names:
        out.extend(A[n])
    return out


def lift1(uf, a, dom=None, at_pinf=NAN, at_ninf=NAN):
    """lift Real->Real UF to F.  dom(realterm)->Bool: where defined (else NaN)."""
    core = F.fin(uf(val(a)))
    if dom is not None:
        core = z3.If(dom(val(a)), core, NAN)
    return z3.If(is_fin(a), core, z3.If(is_pinf(a), at_pinf, z3.If(is_ninf(a), at_ninf, NAN)))


def sqrt(a):
    return lift1(u_sqrt, a, dom=lambda r: r >= 0, at_pinf=PINF)


def atan(a):
    return lift1(u_atan, a, at_pinf=F.fin(PI / 2), at_ninf=F.fin(-PI / 2))


def sin(a):
    return lift1(u_sin, a)


def cos(a):
    return lift1(u_cos, a)


def tan(a):
    return lift1(u_tan, a)


def asin(a):
    return lift1(u_asin, a, dom=lambda r: z3.And(r >= -1, r <= 1))


def exp(a):
    return lift1(u_exp, a, at_pinf=PINF, at_ninf=F.fin(z3.RealVal(0)))


def atan2(a, b):
    # finite arguments only are modelled precisely; anything else -> UF on a tag
    return z3.If(z3.And(is_fin(a), is_fin(b)), F.fin(u_atan2(val(a), val(b))),
                 z3.If(z3.Or(is_nan(a), is_nan(b)), NAN, F.fin(u_atan2inf(a, b))))




def to_py(model, term):
    """Evaluate an F term in a model to a python float."""
    v = model.eval(term, model_completion=True)
    return f_to_py(v)


def f_to_py(v):
    d = v.decl().name()
    if d == "nan":
        return float("nan")
    if d == "pinf":
        return float("inf")
    if d == "ninf":
        return float("-inf")
    if d == "fin":
        return real_to_py(v.arg(0))
    raise ValueError("not an F value: %s" % v)


def real_to_py(r):
    if z3.is_rational_value(r):
        return r.numerator_as_long() / r.denominator_as_long()
    if z3.is_algebraic_value(r):
        return float(r.approx(20).as_fraction())
    try:
        return float(r.as_decimal(17).rstrip("?"))
    except Exception:
        raise ValueError("cannot concretise %s" % r)
