"""Counterexample concretisation and native replay (DESIGN 2.8)."""
import json
import math
import os
import subprocess
import sys
import z3

from . import xr, VENV_PY, VERIF, REPO
from .values import arr_sort
from . import discharge

RUNNER = os.path.join(VERIF, "pyvc", "native_runner.py")


def native(job, jit=True, timeout=600):
    env = dict(os.environ)
    env["PYVC_REPO"] = REPO
    env["PYTHONPATH"] = VERIF + os.pathsep + REPO
    env["NUMBA_DISABLE_JIT"] = "0" if jit else "1"
    if jit:
        env.pop("NUMBA_DISABLE_JIT", None)
    env.setdefault("NUMBA_CACHE_DIR", "/tmp/pyvc-numba-cache")
    p = subprocess.run([VENV_PY, RUNNER], input=json.dumps(job), capture_output=True, text=True, env=env,
                       timeout=timeout, cwd=VERIF)
    lines = [l for l in p.stdout.strip().splitlines() if l.strip()]
    if p.returncode != 0 or not lines:
        raise RuntimeError("native runner failed (rc=%s): %s\n%s" % (p.returncode, p.stdout[-2000:], p.stderr[-4000:]))
    return json.loads(lines[-1])


def _enc_f(x):
    if isinstance(x, float):
        if math.isnan(x):
            return "nan"
        if math.isinf(x):
            return "inf" if x > 0 else "-inf"
    return x


def concretise(contract, model, maxlen=8):
    """parameter values from a z3 model, as the JSON the native runner decodes"""
    args = {}
    for nm, ty in contract.params.items():
        if ty == "int":
            args[nm] = model.eval(z3.Int(nm), model_completion=True).as_long()
        elif ty == "float":
            args[nm] = {"__f__": _enc_f(xr.to_py(model, z3.Const(nm, xr.F)))}
        elif ty == "bool":
            args[nm] = bool(z3.is_true(model.eval(z3.Bool(nm), model_completion=True)))
        elif ty[0] in "fib" and ty[1:].isdigit():
            et, nd = ty[0], int(ty[1:])
            shape = [model.eval(z3.Int("%s.shape%d" % (nm, k)), model_completion=True).as_long() for k in range(nd)]
            if any(s > maxlen for s in shape):
                return None
            arr = z3.Const(nm, arr_sort(et, nd))
            flat = []
            import itertools
            for idx in itertools.product(*[range(s) for s in shape]):
                t = arr
                for i in idx:
                    t = z3.Select(t, i)
                v = model.eval(t, model_completion=True)
                if et == "f":
                    flat.append(_enc_f(xr.f_to_py(v)))
                elif et == "i":
                    flat.append(v.as_long())
                else:
                    flat.append(bool(z3.is_true(v)))
            args[nm] = {"__arr__": 1, "shape": shape, "flat": flat,
                        "dtype": {"f": "float64", "i": "int64", "b": "bool"}[et]}
        else:
            return None
    return args


def small_bounds(contract, lim):
    bs = []
    for nm, ty in contract.params.items():
        if ty[0] in "fib" and ty[1:].isdigit():
            for k in range(int(ty[1:])):
                bs.append(z3.Int("%s.shape%d" % (nm, k)) <= lim)
    return bs


def replay_failed(contract, o, timeout_s=30):
    """try to turn a failed obligation into a concrete failing input of the real function.
    returns dict(found=bool, args=..., native=..., how=...)"""
    tried = []
    for lim in (3, 5, None):
        try:
            r = discharge.model_for(o, timeout_s, small_bounds(contract, lim) if lim else None)
        except z3.Z3Exception as e:
            tried.append("model search error %r" % e)
            continue
        if r is None:
            tried.append("no model (bounds %s)" % lim)
            continue
        _, model = r
        try:
            args = concretise(contract, model)
        except Exception as e:
            tried.append("concretise failed: %r" % e)
            continue
        if args is None:
            tried.append("model too large to concretise (bounds %s)" % lim)
            continue
        res = native({"op": "replay", "contract": contract.key, "args": args}, jit=(contract.native or {}).get("jit", True))
        if res["status"] == "fail":
            return {"found": True, "args": args, "native": res, "how": "solver model replayed on the real function"}
        tried.append("model (bounds %s) replayed natively: %s %s" % (lim, res["status"], res.get("clause")))
        break
    return {"found": False, "tried": tried}


def fuzz(contract, seed=0, n=2000, budget_s=20, jit=False):
    return native({"op": "fuzz", "contract": contract.key, "seed": seed, "n": n, "budget_s": budget_s}, jit=jit,
                  timeout=budget_s + 300)


API_RUNNER = os.path.join(VERIF, "pyvc", "api_runner.py")


def _env(jit):
    env = dict(os.environ)
    env["PYVC_REPO"] = REPO
    env["PYTHONPATH"] = VERIF + os.pathsep + REPO
    if jit:
        env.pop("NUMBA_DISABLE_JIT", None)
    else:
        env["NUMBA_DISABLE_JIT"] = "1"
    return env


def api_standin(name, seed, budget_s, tier, jit=False):
    p = subprocess.run([VENV_PY, API_RUNNER, name, str(seed), str(budget_s), tier], capture_output=True, text=True,
                       env=_env(jit), timeout=budget_s + 900, cwd=VERIF)
    lines = [l for l in p.stdout.strip().splitlines() if l.strip()]
    if p.returncode != 0 or not lines:
        return {"status": "error", "error": "api runner rc=%s\n%s\n%s" % (p.returncode, p.stdout[-1500:], p.stderr[-3000:])}
    return json.loads(lines[-1])


def main():
    """python3-vt -m pyvc.replay <replay.json>: re-run a recorded failing input on the current tree"""
    path = sys.argv[1]
    rec = json.load(open(path))
    if not rec.get("args"):
        print("replay file records a failed obligation without a concrete input:")
        print(json.dumps({k: rec[k] for k in rec if k != "solver_output"}, indent=1)[:4000])
        sys.exit(0)
    if rec.get("kind") == "api":
        p = subprocess.run([VENV_PY, API_RUNNER, "--replay", rec["standin"], json.dumps(rec["args"])], env=_env(rec.get("jit", False)), cwd=VERIF)
        sys.exit(p.returncode)
    if rec.get("kind") == "script":
        p = subprocess.run(rec["cmd"], shell=True, cwd=VERIF)
        sys.exit(p.returncode)
    from .verify import load_contracts
    load_contracts()
    res = native({"op": "replay", "contract": rec["contract"], "args": rec["args"]}, jit=rec.get("jit", True))
    print(json.dumps(res, indent=1))
    sys.exit(1 if res["status"] == "fail" else 0)


if __name__ == "__main__":
    main()
