import itertools, numpy as np, xarray as xr, warnings
warnings.simplefilter('ignore')
from xrspatial import focal, convolution, classify, zonal
from xrspatial.convolution import circle_kernel, annulus_kernel, calc_cellsize, _get_distance
from xrspatial import great_circle_distance, euclidean_distance, manhattan_distance
rng=np.random.default_rng(0)
def rnd(H,W,nanp=0.15):
    a=rng.random((H,W))*10; a[rng.random((H,W))<nanp]=np.nan; return a
# ---- C09 apply / focal_stats / convolution / mean vs reference
def ref_apply(a,k,fn):
    H,W=a.shape; kr,kc=k.shape; hr,hc=kr//2,kc//2; out=np.full((H,W),np.nan)
    for y in range(H):
        for x in range(W):
            vals=[a[y-hr+i,x-hc+j] for i in range(kr) for j in range(kc) if k[i,j]==1 and 0<=y-hr+i<H and 0<=x-hc+j<W]
            vals=[v for v in vals if not np.isnan(v)]
            out[y,x]=fn(vals) if vals else np.nan
    return out
fns={'mean':np.mean,'max':np.max,'min':np.min,'sum':np.sum,'std':np.std,'var':np.var,'range':lambda v: np.max(v)-np.min(v)}
bad=[]
for t in range(60):
    H,W=rng.integers(1,7,2); a=rnd(H,W)
    kr=int(rng.choice([1,3,5])); kc=int(rng.choice([1,3,5])); k=(rng.random((kr,kc))<0.6).astype(float); k[kr//2,kc//2]=rng.integers(0,2)
    if k.sum()==0: k[0,0]=1
    r=xr.DataArray(a)
    fs=focal.focal_stats(r,k).data
    for i,s in enumerate(['mean','max','min','range','std','var','sum']):
        e=ref_apply(a.astype(np.float32).astype(float),k,fns[s])
        g=fs[i]
        # nansum of all-nan window is 0 in numpy; reference gives nan -> treat: statistic of empty set
        m=~(np.isnan(e))
        if not np.allclose(g[m],e[m],rtol=1e-4,atol=1e-4): bad.append(('focal_stats',s,a.tolist(),k.tolist()))
    # convolution
    wk=rng.random((kr,kc))
    g=convolution.convolution_2d(r,wk).data
    e=np.full((H,W),np.nan)
    for y in range(kr//2,H-kr//2):
        for x in range(kc//2,W-kc//2):
            e[y,x]=sum(wk[i,j]*a[y-kr//2+i,x-kc//2+j] for i in range(kr) for j in range(kc))
    if not np.allclose(g,e,equal_nan=True,rtol=1e-4,atol=1e-4): bad.append(('conv',a.tolist(),wk.tolist()))
    # mean passes / excludes
    ex=[np.nan, float(np.round(a.flat[0],3))] if rng.random()<0.5 else [0.0]
    a2=np.round(a,3)
    g=focal.mean(xr.DataArray(a2),passes=2,excludes=ex).data
    cur=a2.copy()
    for p in range(2):
        nxt=cur.copy()
        for y in range(H):
            for x in range(W):
                v=cur[y,x]
                if any((v==e_) or (np.isnan(v) and np.isnan(e_)) for e_ in ex): continue
                w=cur[max(y-1,0):y+2,max(x-1,0):x+2]; w=w[~np.isnan(w)]
                nxt[y,x]=w.mean() if w.size else np.nan
        cur=nxt
    if not np.allclose(g,cur,equal_nan=True): bad.append(('mean',a2.tolist(),ex))
print('C09 bad',len(bad),bad[:1])
# hotspots negation + value set
b=0
for t in range(30):
    H,W=rng.integers(3,8,2); a=rnd(H,W,0.05); k=np.ones((3,3))
    h1=focal.hotspots(xr.DataArray(a),k).data; h2=focal.hotspots(xr.DataArray(-a),k).data
    if not (np.array_equal(h1,-h2) and set(np.unique(h1)).issubset({0,90,95,99,-90,-95,-99})): b+=1
print('hotspots bad',b)
# ---- C12 reclassify exhaustive positions
bad=0
for n in range(1,7):
    bins=np.arange(n)*2.0+1  # 1,3,5..
    vals=np.array(sorted(set(list(bins)+list(bins-1)+list(bins+1)+[-5.,np.nan,np.inf,-np.inf]),key=lambda v:(np.isnan(v),v)))
    out=classify.reclassify(xr.DataArray(vals.reshape(1,-1)),list(bins),list(range(10,10+n))).data[0]
    for v,o in zip(vals,out):
        if np.isfinite(v) and v<=bins[-1]: e=10+int(np.argmax(bins>=v))
        else: e=np.nan
        if not ((np.isnan(e) and np.isnan(o)) or e==o): bad+=1
    # ties in bins
    bins2=np.repeat(bins,2)
    out=classify.reclassify(xr.DataArray(vals.reshape(1,-1)),list(bins2),list(range(10,10+2*n))).data[0]
    for v,o in zip(vals,out):
        if np.isfinite(v) and v<=bins2[-1]: e=10+int(np.argmax(bins2>=v))
        else: e=np.nan
        if not ((np.isnan(e) and np.isnan(o)) or e==o): bad+=1
print('reclassify bad',bad)
# equal_interval / quantile order preservation & range on random floats
bad=[]
for t in range(200):
    H,W=rng.integers(2,8,2); a=rng.random((H,W))*rng.choice([1,100,1e-3]); a[rng.random((H,W))<0.1]=np.nan
    if rng.random()<0.3: a=np.round(a*5)
    k=int(rng.integers(2,8))
    for name,fn in (('ei',classify.equal_interval),('q',classify.quantile),('nb',classify.natural_breaks)):
        try: o=fn(xr.DataArray(a),k=k).data
        except Exception as e: bad.append((name,'EXC',type(e).__name__,str(e)[:50])); continue
        m=np.isfinite(a)
        if np.isnan(o[m]).any(): bad.append((name,'nan class',k)); continue
        if not np.isnan(o[~m]).all(): bad.append((name,'non-nan for nan')); continue
        v=a[m]; c=o[m]
        if c.min()<0 or c.max()>k-1 or (c!=np.round(c)).any(): bad.append((name,'range',k,c.max())); continue
        idx=np.argsort(v,kind='stable')
        if (np.diff(c[idx])<0).any(): bad.append((name,'order',k))
import collections
print('C12 data-driven', collections.Counter((b[0],b[1]) + ((b[2],) if b[1]=='EXC' else ()) for b in bad))
