import numpy as np, xarray as xr, dask.array as da, warnings, traceback
warnings.simplefilter('ignore')
from xrspatial.pathfinding import _get_pixel_id
from xrspatial.zonal import stats, crosstab
bad=0; tot=0; ex=None
rng=np.random.default_rng(0)
for n in range(3,40):
  for step in [0.1,0.2,0.3,0.7,1/3,0.01,1.1,2.5e-3]:
    for off in [0, 0.05, 10.3, -7.7]:
      for sign in (1,-1):
        c = off + sign*np.arange(n)*step
        s = xr.DataArray(np.ones((n,n)), dims=['y','x'], coords={'y':c, 'x':c})
        for i in range(n):
            tot+=1
            py,px = _get_pixel_id((c[i], c[i]), s, 'x','y')
            if (py,px)!=(i,i):
                bad+=1
                if ex is None: ex=(n,step,off,sign,i,py,px)
print('own-coordinate failures', bad, 'of', tot, 'first', ex)
zones = np.array([[1,1,2,2],[1,1,2,2],[3,3,3,3],[4,4,5,5]],dtype=float)
vals  = np.array([[5,6,5,7],[6,6,7,7],[5,6,7,5],[np.nan,6,7,5]],dtype=float)
zn = xr.DataArray(zones, dims=['y','x']); vn = xr.DataArray(vals, dims=['y','x'])
for ch in [(2,2),(1,4),(4,1),(3,3)]:
    zd = xr.DataArray(da.from_array(zones, chunks=ch), dims=['y','x']); vd = xr.DataArray(da.from_array(vals, chunks=(4,4)), dims=['y','x'])
    try:
        sd = stats(zd, vd).compute().reset_index(drop=True); sn = stats(zn, vn)
        ok = np.allclose(sd.values.astype(float), sn.values.astype(float), equal_nan=True)
        print('stats', ch, ok)
        if not ok: print(sd, sn)
    except Exception as e: print('stats dask', ch, type(e).__name__, str(e)[:150])
    try:
        sd = stats(zd, vd, zone_ids=[3,1]).compute().reset_index(drop=True); sn = stats(zn, vn, zone_ids=[3,1])
        ok = np.allclose(sd.values.astype(float), sn.values.astype(float), equal_nan=True)
        print('stats zone_ids', ch, ok)
        if not ok: print(sd, sn)
    except Exception as e: print('stats zone_ids dask', ch, type(e).__name__, str(e)[:150])
    try:
        cd = crosstab(zd, vd).compute().reset_index(drop=True); cn = crosstab(zn, vn)
        ok = np.allclose(cd.values.astype(float), cn.values.astype(float), equal_nan=True)
        print('crosstab', ch, ok)
        if not ok: print(cd, cn)
    except Exception as e: print('crosstab dask', ch, type(e).__name__, str(e)[:150])
