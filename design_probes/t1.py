import time, numpy as np, xarray as xr, warnings
warnings.simplefilter('ignore')
t=time.time(); from xrspatial import proximity, a_star_search, viewshed, slope; print('import', round(time.time()-t,2))
a = np.zeros((4,5)); a[1,2]=1; a[3,0]=2
r = xr.DataArray(a, dims=['y','x'], coords={'y':np.arange(4)[::-1].astype(float),'x':np.arange(5).astype(float)})
for i in range(3):
    t=time.time(); p = proximity(r); print('proximity', round(time.time()-t,3))
for i in range(2):
    t=time.time(); p = a_star_search(r, (3.,0.), (0.,4.), barriers=[]); print('astar', round(time.time()-t,3))
for i in range(2):
    t=time.time(); p = viewshed(r, x=2., y=2.); print('viewshed', round(time.time()-t,3))
for i in range(2):
    t=time.time(); p = slope(r); print('slope', round(time.time()-t,3))
