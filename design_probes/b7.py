import itertools, numpy as np, xarray as xr, dask, dask.array as da, warnings
warnings.simplefilter('ignore')
from xrspatial import proximity, allocation, direction
def comps(n):
    if n==0: yield (); return
    for k in range(1,n+1):
        for r in comps(n-k): yield (k,)+r
rng=np.random.default_rng(3)
bad=[];n=0
for trial in range(3):
    H,W=4,5
    a=(rng.random((H,W))<0.2).astype(float)*rng.integers(1,4,(H,W))
    coords={'y':np.arange(H)[::-1]*2.0,'x':np.arange(W)*1.0}
    rn=xr.DataArray(a,dims=['y','x'],coords=coords)
    for md in (1.0,1.5,2.0,2.9,4.0,np.inf):
        for fn in (proximity,allocation,direction):
            base=fn(rn,max_distance=md).data
            for ch in itertools.product(list(comps(H)),list(comps(W))):
                pady=int(md/2.0+0.5) if np.isfinite(md) else 0; padx=int(md/1.0+0.5) if np.isfinite(md) else 0
                n+=1
                rd=xr.DataArray(da.from_array(a,chunks=ch),dims=['y','x'],coords=coords)
                try:
                    with dask.config.set(scheduler='synchronous'):
                        got=fn(rd,max_distance=md).data.compute()
                    if not np.allclose(got,base,equal_nan=True): bad.append((trial,md,fn.__name__,ch,'diff'))
                except Exception as e:
                    bad.append((trial,md,fn.__name__,ch,type(e).__name__+str(e)[:60]))
print('cases',n,'bad',len(bad)); 
import collections
print(collections.Counter((b[1],b[4][:30]) for b in bad).most_common(10)); print(bad[:3])
