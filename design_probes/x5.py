import z3, time
def prove(name, hyp, goal, to=60000):
    s=z3.Solver(); s.set('timeout',to); s.add(hyp, z3.Not(goal)); t=time.time(); r=s.check(); print(name, r, round(time.time()-t,2))
    if r==z3.sat: print(s.model())
s1,c1,s2,c2,c3 = z3.Reals('s1 c1 s2 c2 c3')
hyp = z3.And(s1*s1+c1*c1==1, s2*s2+c2*c2==1, -1<=c3, c3<=1)
sh = s1*s2 + c1*c2*c3
prove('hillshade in [-1,1]', hyp, z3.And(sh<=1, sh>=-1))
prove('hillshade result in [0,1]', hyp, z3.And((sh+1)/2<=1, (sh+1)/2>=0))
# annulus: inner subset of outer (integers)
x,y,hw,hh,iw,ih = z3.Ints('x y hw hh iw ih')
inner = (x*ih)*(x*ih) + (y*iw)*(y*iw) <= (iw*ih)*(iw*ih)
outer = (x*hh)*(x*hh) + (y*hw)*(y*hw) <= (hw*hh)*(hw*hh)
hyp = z3.And(0<=iw, iw<=hw, 0<=ih, ih<=hh, -iw<=x, x<=iw, -ih<=y, y<=ih, inner)
prove('inner subset outer', hyp, outer, 120000)
# symmetric under flips: trivial
prove('flip sym', z3.And(outer), z3.substitute(outer, (x,-x)))
