import ast, glob, os
root='/repo/xrspatial'
for f in sorted(glob.glob(root+'/*.py')+glob.glob(root+'/experimental/*.py')):
    src=open(f).read(); t=ast.parse(src)
    glob_names=set()
    for n in t.body:
        if isinstance(n,(ast.Assign,ast.AnnAssign)):
            for tg in (n.targets if isinstance(n,ast.Assign) else [n.target]):
                for x in ast.walk(tg):
                    if isinstance(x,ast.Name): glob_names.add(x.id)
    issues=[]
    for fn in ast.walk(t):
        if not isinstance(fn,(ast.FunctionDef,ast.Lambda)): continue
        local=set()
        if isinstance(fn,ast.FunctionDef):
            for a in fn.args.args+fn.args.kwonlyargs: local.add(a.arg)
            for x in ast.walk(fn):
                if isinstance(x,ast.Name) and isinstance(x.ctx,ast.Store): local.add(x.id)
        for x in ast.walk(fn):
            if isinstance(x,ast.Global): issues.append((x.lineno,'global '+','.join(x.names)))
            if isinstance(x,(ast.Assign,ast.AugAssign)):
                tgs = x.targets if isinstance(x,ast.Assign) else [x.target]
                for tg in tgs:
                    base=tg
                    while isinstance(base,(ast.Subscript,ast.Attribute)): base=base.value
                    if isinstance(base,ast.Name) and base.id in glob_names and base.id not in local and not isinstance(tg,ast.Name):
                        issues.append((x.lineno,'store into global '+base.id))
            if isinstance(x,ast.Call) and isinstance(x.func,ast.Attribute) and x.func.attr in('append','extend','update','pop','remove','sort','clear','setdefault','insert','fill'):
                b=x.func.value
                while isinstance(b,(ast.Subscript,ast.Attribute)): b=b.value
                if isinstance(b,ast.Name) and b.id in glob_names and b.id not in local: issues.append((x.lineno,'mutating call on global '+b.id+'.'+x.func.attr))
    # jit decorators with parallel / cache
    for x in ast.walk(t):
        if isinstance(x,ast.Call):
            for kw in x.keywords:
                if kw.arg in('parallel','cache') : issues.append((x.lineno,'kw %s=%s'%(kw.arg,ast.unparse(kw.value))))
    if issues: print(os.path.relpath(f,root), sorted(set(issues)))
