import itertools, numpy as np, xarray as xr, warnings, heapq
warnings.simplefilter('ignore')
from xrspatial.zonal import regions
from xrspatial import a_star_search
def flood(a, n):
    H,W=a.shape; lab=np.zeros((H,W),int); c=0
    nb4=[(0,1),(1,0),(0,-1),(-1,0)]; nb8=nb4+[(1,1),(1,-1),(-1,1),(-1,-1)]
    nb=nb8 if n==8 else nb4
    for i in range(H):
        for j in range(W):
            if lab[i,j] or np.isnan(a[i,j]): continue
            c+=1; st=[(i,j)]; lab[i,j]=c
            while st:
                y,x=st.pop()
                for dy,dx in nb:
                    yy,xx=y+dy,x+dx
                    if 0<=yy<H and 0<=xx<W and not lab[yy,xx] and a[yy,xx]==a[y,x]:
                        lab[yy,xx]=c; st.append((yy,xx))
    return lab
def same_partition(l1,l2,mask):
    m={}; r={}
    for u,v in zip(l1[mask].ravel(), l2[mask].ravel()):
        if m.setdefault(u,v)!=v or r.setdefault(v,u)!=u: return False
    return True
bad=0;tot=0;first=None
for (H,W) in [(3,4),(4,3),(2,6),(1,8),(8,1),(3,3)]:
    for bits in range(2**(H*W)):
        a=np.array([(bits>>k)&1 for k in range(H*W)],dtype=float).reshape(H,W)
        for n in (4,8):
            out=regions(xr.DataArray(a),neighborhood=n).data; tot+=1
            if not (same_partition(out, flood(a,n), np.ones_like(a,bool)) and (out>0).all()):
                bad+=1
                if first is None: first=(H,W,n,a.tolist(),out.tolist())
print('regions exhaustive bad',bad,'of',tot, first)
# with NaN, 3 values random
rng=np.random.default_rng(0); b2=0
for t in range(3000):
    H,W=rng.integers(1,7,2); a=rng.integers(0,3,(H,W)).astype(float); a[rng.random((H,W))<0.15]=np.nan
    for n in (4,8):
        out=regions(xr.DataArray(a),neighborhood=n).data; m=~np.isnan(a)
        if not (same_partition(out, flood(a,n), m) and np.isnan(out[~m]).all() and (out[m]>0).all()): b2+=1; 
print('regions random bad',b2)
# A* vs dijkstra on 3x3 all barrier layouts
def dijk(a,s,g,conn):
    H,W=a.shape
    if a[s]==0 or a[g]==0: return None
    nb=[(0,1),(1,0),(0,-1),(-1,0)]+([(1,1),(1,-1),(-1,1),(-1,-1)] if conn==8 else [])
    D={s:0.0}; pq=[(0.0,s)]
    while pq:
        d,u=heapq.heappop(pq)
        if d>D[u]: continue
        if u==g: return d
        for dy,dx in nb:
            v=(u[0]+dy,u[1]+dx)
            if 0<=v[0]<H and 0<=v[1]<W and a[v]!=0:
                nd=d+np.hypot(dy,dx)
                if nd<D.get(v,np.inf)-1e-12: D[v]=nd; heapq.heappush(pq,(nd,v))
    return None
bad=0;tot=0;first=None
H=W=3
for bits in range(2**9):
    a=np.array([(bits>>k)&1 for k in range(9)],dtype=float).reshape(H,W)
    r=xr.DataArray(a,dims=['y','x'],coords={'y':np.arange(H)[::-1]*1.0,'x':np.arange(W)*1.0})
    for s in itertools.product(range(H),range(W)):
        for g in itertools.product(range(H),range(W)):
            for conn in (4,8):
                p=a_star_search(r,(r.y.data[s[0]],r.x.data[s[1]]),(r.y.data[g[0]],r.x.data[g[1]]),barriers=[0],connectivity=conn).data
                e=dijk(a,s,g,conn); tot+=1
                ok = (np.isnan(p).all() if e is None else (not np.isnan(p[g]) and abs(p[g]-e)<1e-9 and p[s]==0))
                if not ok:
                    bad+=1
                    if first is None: first=(a.tolist(),s,g,conn,p.tolist(),e)
print('astar 3x3 bad',bad,'of',tot,first)
