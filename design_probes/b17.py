import numpy as np, xarray as xr, warnings
warnings.simplefilter('ignore')
from xrspatial import local
from xrspatial.zonal import crosstab
rng=np.random.default_rng(0)
bad=[]
for t in range(300):
    H,W=rng.integers(1,5,2); n=int(rng.integers(2,6))
    layers=[rng.integers(0,4,(H,W)).astype(float) for _ in range(n)]
    for L in layers: L[rng.random((H,W))<0.1]=np.nan
    ref=rng.integers(1,n+1,(H,W))
    ds=xr.Dataset({f'v{i}':(('y','x'),L) for i,L in enumerate(layers)}); ds['ref']=(('y','x'),ref)
    dv=[f'v{i}' for i in range(n)]
    st=np.stack(layers); nanc=np.isnan(st).any(0)
    def chk(name,got,exp):
        g=np.asarray(got.data,float)
        if g.shape!=(H,W) or not np.allclose(g,exp,equal_nan=True): bad.append((name,H,W,n))
    for f,fn in (('sum',np.sum),('max',np.max),('min',np.min),('mean',np.mean),('median',np.median),('std',np.std)):
        chk('cell_stats_'+f, local.cell_stats(ds,dv,f), fn(st,axis=0))
    r=ref.astype(float)
    lf=np.where(nanc,np.nan,(st<r).sum(0)); ef=np.where(nanc,np.nan,(st==r).sum(0)); gf=np.where(nanc,np.nan,(st>r).sum(0))
    chk('lesser',local.lesser_frequency(ds,'ref',dv),lf); chk('equal',local.equal_frequency(ds,'ref',dv),ef); chk('greater',local.greater_frequency(ds,'ref',dv),gf)
    with np.errstate(all='ignore'):
        lp=np.where(nanc,np.nan,np.argmin(np.where(np.isnan(st),np.inf,st),0)+1); hp=np.where(nanc,np.nan,np.argmax(np.where(np.isnan(st),-np.inf,st),0)+1)
    chk('lowpos',local.lowest_position(ds,dv),lp); chk('highpos',local.highest_position(ds,dv),hp)
    srt=np.sort(st,axis=0); rk=np.where(nanc,np.nan,np.take_along_axis(srt,(ref-1)[None],0)[0])
    chk('rank',local.rank(ds,'ref',dv),rk)
    cb=local.combine(ds,dv); g=np.asarray(cb.data,float); key=cb.attrs['key']
    ids={}; nxt=1; e=np.full((H,W),np.nan)
    for y in range(H):
        for x in range(W):
            if nanc[y,x]: continue
            tup=tuple(st[:,y,x])
            if tup not in ids: ids[tup]=nxt; nxt+=1
            e[y,x]=ids[tup]
    if g.shape!=(H,W) or not np.allclose(g,e,equal_nan=True) or {v:k for k,v in ids.items()}!={k:tuple(v) for k,v in key.items()}: bad.append(('combine',H,W,n))
import collections; print('C17 bad', collections.Counter(b[0] for b in bad), bad[:3])
# C04 3-D numpy crosstab
bad=0
for t in range(100):
    H,W=rng.integers(1,5,2); nl=3
    z=rng.integers(0,3,(H,W)).astype(float); v=rng.integers(0,5,(nl,H,W)).astype(float); v[rng.random((nl,H,W))<0.1]=np.nan
    va=xr.DataArray(v,dims=['band','y','x'],coords={'band':[10,20,30]}); za=xr.DataArray(z,dims=['y','x'])
    for agg,fn in (('count',len),('sum',np.sum),('max',np.max),('min',np.min),('mean',np.mean)):
        try: df=crosstab(za,va,agg=agg)
        except Exception as e:
            if agg in('max','min'): continue
            bad+=1; continue
        uz=np.unique(z)
        for i,u in enumerate(uz):
            for j,b in enumerate([10,20,30]):
                vals=v[j][z==u]; vals=vals[np.isfinite(vals)]
                e=fn(vals) if len(vals) or agg in('count','sum') else np.nan
                g=df[b].iloc[i]
                if not ((np.isnan(e) and np.isnan(g)) or np.isclose(g,e)): bad+=1
print('C04 3D bad',bad)
