import z3, time
def prove(name, hyp, goal, to=60000):
    s=z3.Solver(); s.set('timeout',to); s.add(hyp, z3.Not(goal)); t=time.time(); r=s.check(); print(name, r, round(time.time()-t,3))
    if r==z3.sat: print(s.model())
# XR float datatype
F=z3.Datatype('F'); F.declare('nan'); F.declare('pinf'); F.declare('ninf'); F.declare('fin',('v',z3.RealSort())); F=F.create()
isnan=lambda a: F.is_nan(a); isfin=lambda a: F.is_fin(a); isinf=lambda a: z3.Or(F.is_pinf(a),F.is_ninf(a))
def sgn_pos(a): return z3.Or(F.is_pinf(a), z3.And(isfin(a), F.v(a)>0))
def sgn_neg(a): return z3.Or(F.is_ninf(a), z3.And(isfin(a), F.v(a)<0))
def fneg(a): return z3.If(isnan(a),a, z3.If(F.is_pinf(a),F.ninf, z3.If(F.is_ninf(a),F.pinf, F.fin(-F.v(a)))))
def fadd(a,b):
    return z3.If(z3.Or(isnan(a),isnan(b)), F.nan,
           z3.If(z3.And(isfin(a),isfin(b)), F.fin(F.v(a)+F.v(b)),
           z3.If(z3.And(isinf(a),isinf(b), a!=b), F.nan, z3.If(isinf(a),a,b))))
def fsub(a,b): return fadd(a,fneg(b))
def fmul(a,b):
    zero=lambda x: z3.And(isfin(x),F.v(x)==0)
    return z3.If(z3.Or(isnan(a),isnan(b)), F.nan,
           z3.If(z3.And(isfin(a),isfin(b)), F.fin(F.v(a)*F.v(b)),
           z3.If(z3.Or(zero(a),zero(b)), F.nan,
           z3.If(sgn_pos(a)==sgn_pos(b), F.pinf, F.ninf))))
def fdiv(a,b):
    zero=lambda x: z3.And(isfin(x),F.v(x)==0)
    return z3.If(z3.Or(isnan(a),isnan(b)), F.nan,
           z3.If(z3.And(isfin(a),isfin(b), F.v(b)!=0), F.fin(F.v(a)/F.v(b)),
           z3.If(z3.And(isinf(a),isinf(b)), F.nan,
           z3.If(z3.And(zero(a),zero(b)), F.nan,
           z3.If(isinf(b), F.fin(0),
           z3.If(sgn_pos(a)==z3.Or(sgn_pos(b), z3.And(zero(b))), F.pinf, F.ninf))))))  # x/0 -> +-inf (sign of zero ignored)
c=lambda r: F.fin(z3.RealVal(r))
# slope: code order (rows named y+1 first) vs spec geographic naming
data=z3.Function('data', z3.IntSort(), z3.IntSort(), F)
y,x=z3.Ints('y x'); cx,cy=z3.Consts('cx cy',F)
A=data(y+1,x-1);B=data(y+1,x);C=data(y+1,x+1);D=data(y,x-1);Fv=data(y,x+1);G=data(y-1,x-1);Hh=data(y-1,x);I=data(y-1,x+1)
two=c(2); eight=c(8)
dzdx_code=fdiv(fsub(fadd(fadd(C,fmul(two,Fv)),I), fadd(fadd(A,fmul(two,D)),G)), fmul(eight,cx))
dzdy_code=fdiv(fsub(fadd(fadd(G,fmul(two,Hh)),I), fadd(fadd(A,fmul(two,B)),C)), fmul(eight,cy))
# spec: geographic: N = row y-1, S=row y+1 ; dz_dx = ((NE+2E+SE)-(NW+2W+SW))/(8cx); dz_dy=((NW+2N+NE)-(SW+2S+SE))/(8cy)
NW=data(y-1,x-1);N=data(y-1,x);NE=data(y-1,x+1);Wc=data(y,x-1);E=data(y,x+1);SW=data(y+1,x-1);S=data(y+1,x);SE=data(y+1,x+1)
dzdx_spec=fdiv(fsub(fadd(fadd(NE,fmul(two,E)),SE), fadd(fadd(NW,fmul(two,Wc)),SW)), fmul(eight,cx))
dzdy_spec=fdiv(fsub(fadd(fadd(NW,fmul(two,N)),NE), fadd(fadd(SW,fmul(two,S)),SE)), fmul(eight,cy))
fin_all = z3.And(*[z3.Or(isfin(v),isnan(v)) for v in (A,B,C,D,Fv,G,Hh,I)], isfin(cx), F.v(cx)>0, isfin(cy), F.v(cy)>0)
# p = dzdx^2+dzdy^2 must agree
p_code=fadd(fmul(dzdx_code,dzdx_code),fmul(dzdy_code,dzdy_code)); p_spec=fadd(fmul(dzdx_spec,dzdx_spec),fmul(dzdy_spec,dzdy_spec))
prove('slope p code==spec (XR, reordered sums)', fin_all, p_code==p_spec)
prove('nan in window -> nan', z3.And(fin_all, isnan(B)), isnan(p_code))
# offset invariance
k=z3.Real('k'); sh=lambda v: z3.If(isfin(v), F.fin(F.v(v)+k), v)
def P(f):
    a,b,cc,d,ff,g,h,i=[f(v) for v in (A,B,C,D,Fv,G,Hh,I)]
    dx=fdiv(fsub(fadd(fadd(cc,fmul(two,ff)),i), fadd(fadd(a,fmul(two,d)),g)), fmul(eight,cx))
    dy=fdiv(fsub(fadd(fadd(g,fmul(two,h)),i), fadd(fadd(a,fmul(two,b)),cc)), fmul(eight,cy))
    return fadd(fmul(dx,dx),fmul(dy,dy))
prove('offset invariance', fin_all, P(sh)==P(lambda v:v))
