import itertools, numpy as np, xarray as xr, warnings, pandas as pd
warnings.simplefilter('ignore')
from xrspatial import zonal, slope, aspect, curvature, hillshade
from xrspatial import multispectral as ms
from xrspatial.convolution import circle_kernel, annulus_kernel
rng=np.random.default_rng(0)
bad=[]
for t in range(400):
    H,W=rng.integers(1,6,2)
    z=rng.choice([-2.5,-1,0,3,7,10.5],size=(H,W)); 
    if rng.random()<0.5: z[rng.random((H,W))<0.2]=np.nan
    v=rng.integers(0,4,(H,W)).astype(float); v[rng.random((H,W))<0.2]=np.nan
    if rng.random()<0.3: v[rng.random((H,W))<0.1]=np.inf
    nod=rng.choice([None,0,2])
    zid=None if rng.random()<0.5 else list(rng.permutation([3,-1,99,10.5,0])[:rng.integers(1,5)])
    try:
        df=zonal.stats(xr.DataArray(z),xr.DataArray(v),zone_ids=zid,nodata_values=nod)
    except Exception as e:
        bad.append(('EXC',type(e).__name__,str(e)[:60])); continue
    uz=np.unique(z[np.isfinite(z)]); sel=[u for u in uz if zid is None or u in zid]
    if list(df['zone'])!=sel: bad.append(('zones',list(df['zone']),sel)); continue
    for i,u in enumerate(sel):
        vals=v[(z==u)]; vals=vals[np.isfinite(vals)]
        if nod is not None: vals=vals[vals!=nod]
        exp=dict(mean=vals.mean(),max=vals.max(),min=vals.min(),sum=vals.sum(),std=vals.std(),var=vals.var(),count=len(vals)) if len(vals) else {k:np.nan for k in ['mean','max','min','sum','std','var','count']}
        for k,e in exp.items():
            g=df[k].iloc[i]
            if not ((np.isnan(e) and np.isnan(g)) or np.isclose(g,e)): bad.append(('stat',k,u,g,e)); break
    # raster mode
    ra=zonal.stats(xr.DataArray(z),xr.DataArray(v),zone_ids=zid,nodata_values=nod,stats_funcs=['sum'],return_type='xarray.DataArray').data[0]
    for y in range(H):
        for x in range(W):
            u=z[y,x]
            if np.isfinite(u) and u in sel:
                vals=v[(z==u)]; vals=vals[np.isfinite(vals)]; vals=vals if nod is None else vals[vals!=nod]
                e=vals.sum() if len(vals) else np.nan
            else: e=np.nan
            if not ((np.isnan(e) and np.isnan(ra[y,x])) or np.isclose(ra[y,x],e)): bad.append(('raster',)); break
import collections
print('C02 random (no inf zones):', collections.Counter(b[0] for b in bad), bad[:2])
# C13 zero denominators
z0=xr.DataArray(np.array([[0.,1,0,np.nan,2]])); o=xr.DataArray(np.array([[0.,1,5,3,np.nan]]))
print('ndvi', ms.ndvi(z0,o).data, 'gci', ms.gci(z0,z0).data, 'sipi', ms.sipi(z0,z0,o).data, 'ebbi', ms.ebbi(z0,z0,z0).data)
print('ndvi uint8 overflow', ms.ndvi(xr.DataArray(np.array([[200,3]],dtype=np.uint8)), xr.DataArray(np.array([[100,250]],dtype=np.uint8))).data)
# C08 rotation / offset numerically
a=rng.random((6,6))*10
r=xr.DataArray(a,dims=['y','x'],attrs={'res':(1,1)}); rr=xr.DataArray(np.rot90(a).copy(),dims=['y','x'],attrs={'res':(1,1)})
s1=slope(r).data; s2=slope(rr).data; print('slope rot', np.allclose(np.rot90(s1),s2,equal_nan=True,atol=1e-4))
a1=aspect(r).data; a2=aspect(rr).data; d=(np.rot90(a1)-a2)[1:-1,1:-1]; print('aspect rot diff mod 360', np.unique(np.round(d%360,3)))
print('offset', np.allclose(slope(r).data, slope(r+1000).data, equal_nan=True, atol=1e-3), np.allclose(curvature(r).data,curvature(r+1000).data,equal_nan=True,atol=1e-2))
h=hillshade(r).data; print('hillshade range', np.nanmin(h), np.nanmax(h))
# C19 kernels
ok=True
for cx,cy,rad in itertools.product([1,2,0.5,3],[1,2,0.7],[1,2.5,3,7.9]):
    k=circle_kernel(cx,cy,rad); hw=int(rad/cx); hh=int(rad/cy)
    ok&= k.shape==(2*hh+1,2*hw+1) and np.array_equal(k,k[::-1]) and np.array_equal(k,k[:,::-1]) and set(np.unique(k))<= {0.,1.}
    for inner in [0.5,1,rad]:
        try:
            an=annulus_kernel(cx,cy,rad,inner); ok&= an.min()>=0
        except Exception as e: print('annulus exc',cx,cy,rad,inner,type(e).__name__,e)
print('kernels ok',ok)
