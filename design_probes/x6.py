import z3, time
def prove(name, hyp, goal, to=120000):
    s=z3.Solver(); s.set('timeout',to); s.add(hyp, z3.Not(goal)); t=time.time(); r=s.check(); print(name, r, round(time.time()-t,2))
a,b,c,d,p,q,r = z3.Reals('a b c d p q r')
hyp = z3.And(p>=0,q>=0,r>=0,p*p==a*a+b*b,q*q==c*c+d*d,r*r==(a+c)*(a+c)+(b+d)*(b+d))
prove('euclid triangle', hyp, r<=p+q)
prove('euclid zero iff', z3.And(p>=0,p*p==a*a+b*b), (p==0)==z3.And(a==0,b==0))
