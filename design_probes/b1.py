import itertools, numpy as np, xarray as xr, dask, dask.array as da, warnings, sys
warnings.simplefilter('ignore')
from xrspatial import slope, aspect, curvature, hillshade, binary, reclassify, ndvi, perlin, generate_terrain
from xrspatial.focal import mean as fmean, apply as fapply, focal_stats, hotspots
from xrspatial.convolution import convolution_2d
from xrspatial.multispectral import true_color, evi
def comps(n):
    if n==0: yield (); return
    for k in range(1,n+1):
        for r in comps(n-k): yield (k,)+r
rng=np.random.default_rng(0)
H,W=4,5
a=rng.random((H,W))*10; a[1,2]=np.nan; a[3,0]=np.nan
coords={'y':np.arange(H)[::-1]*2.0,'x':np.arange(W)*3.0}
k33=np.ones((3,3)); k13=np.array([[1.,0,1]]); k31=np.array([[1.],[1.],[0.]]); k53=np.ones((5,3)); k53[0,0]=0
ops={
 'slope':lambda r: slope(r), 'aspect':lambda r: aspect(r), 'curvature':lambda r: curvature(r), 'hillshade':lambda r: hillshade(r),
 'mean2':lambda r: fmean(r,passes=2), 'apply13':lambda r: fapply(r,k13), 'apply31':lambda r: fapply(r,k31),'apply53':lambda r: fapply(r,k53),
 'conv13':lambda r: convolution_2d(r,k13), 'conv31':lambda r: convolution_2d(r,k31), 'conv53':lambda r: convolution_2d(r,k53),
 'hotspots':lambda r: hotspots(r,k33), 'hotspots13':lambda r: hotspots(r,k13),
 'binary':lambda r: binary(r,[a[0,0],a[2,2]]), 'reclassify':lambda r: reclassify(r,[2,5,8,11],[1,2,3,4]),
 'focal_stats':lambda r: focal_stats(r,k31),
}
def mk(arr,ch=None):
    d=arr if ch is None else da.from_array(arr,chunks=ch)
    return xr.DataArray(d,dims=['y','x'],coords=coords,attrs={'res':(3.0,2.0)})
base={k:f(mk(a)).data for k,f in ops.items()}
bad={}
n=0
for ch in itertools.product(list(comps(H)),list(comps(W))):
    for k,f in ops.items():
        n+=1
        try:
            r=f(mk(a,ch))
            assert isinstance(r.data,da.Array),'not lazy'
            with dask.config.set(scheduler='synchronous'):
                got=r.data.compute()
            if not np.allclose(got,base[k],equal_nan=True,rtol=1e-5,atol=1e-6): bad.setdefault(k,[]).append((ch,'diff'))
        except Exception as e:
            bad.setdefault(k,[]).append((ch,type(e).__name__+':'+str(e)[:80]))
print('cases',n)
for k,v in bad.items(): print(k,len(v),v[:2])
