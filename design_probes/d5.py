import numpy as np, xarray as xr, warnings
warnings.simplefilter('ignore')
from xrspatial.utils import ngjit
@ngjit
def f(d):
    e = d.astype(np.float32)
    e[0,0] = 99
    return e
a = np.zeros((2,2),dtype=np.float32); r=f(a); print('numba astype same dtype copies:', a[0,0]==0, not np.shares_memory(a,r))
at = {'res':(1,1),'k':[1]}
ag = xr.DataArray(a, attrs=at); o = xr.DataArray(a.copy(), attrs=ag.attrs); o.attrs['new']=1
print('attrs shallow-copied by ctor:', 'new' not in ag.attrs, o.attrs is not ag.attrs)
from xrspatial import local
c = np.arange(12.).reshape(3,4)
ds_c = xr.Dataset({'a': (('y','x'), c), 'b': (('y','x'), c*2)})
ds_f = xr.Dataset({'a': (('y','x'), np.asfortranarray(c)), 'b': (('y','x'), np.asfortranarray(c*2))})
print('cell_stats C vs F equal:', np.array_equal(local.cell_stats(ds_c).data, local.cell_stats(ds_f).data))
ds_m = xr.Dataset({'a': (('y','x'), np.asfortranarray(c)), 'b': (('y','x'), c*2)})
print('cell_stats mixed equal:', np.array_equal(local.cell_stats(ds_c).data, local.cell_stats(ds_m).data))
ds_r = xr.Dataset({'a': (('y','x'), np.asfortranarray(c)), 'b': (('y','x'), np.asfortranarray(c*2)), 'ref': (('y','x'), np.ones((3,4),dtype=int))})
ds_rc = xr.Dataset({'a': (('y','x'), c), 'b': (('y','x'), c*2), 'ref': (('y','x'), c*1.5)})
ds_rf = xr.Dataset({'a': (('y','x'), np.asfortranarray(c)), 'b': (('y','x'), np.asfortranarray(c*2)), 'ref': (('y','x'), c*1.5)})
print('lesser_frequency C vs F equal:', np.array_equal(local.lesser_frequency(ds_rc,'ref').data, local.lesser_frequency(ds_rf,'ref').data))
print(local.cell_stats(ds_f).data)
