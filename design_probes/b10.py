import itertools, numpy as np, xarray as xr, warnings, copy
warnings.simplefilter('ignore')
import xrspatial as xs
from xrspatial import focal, convolution, classify, multispectral as ms, zonal, proximity as px
from xrspatial.experimental.polygonize import polygonize
H,W=5,6
rng=np.random.default_rng(0)
def mk(dtype, layout, name='r'):
    base=(rng.random((H,W))*20+1)
    arr=base.astype(dtype)
    if layout=='F': arr=np.asfortranarray(arr)
    elif layout=='view': big=np.zeros((H*2,W*2),dtype=dtype); big[::2,::2]=arr; arr=big[::2,::2]
    elif layout=='ro': arr=arr.copy(); arr.setflags(write=False)
    return xr.DataArray(arr,dims=['y','x'],coords={'y':np.arange(H)[::-1]*1.0,'x':np.arange(W)*1.0,'t':7},attrs={'res':(1.0,1.0),'m':[1,2]},name=name)
k=np.ones((3,3))
fns={
 'slope':lambda r: xs.slope(r),'aspect':lambda r: xs.aspect(r),'curvature':lambda r: xs.curvature(r),'hillshade':lambda r: xs.hillshade(r),
 'mean':lambda r: focal.mean(r),'mean0':lambda r: focal.mean(r,passes=0),'apply':lambda r: focal.apply(r,k),'hotspots':lambda r: focal.hotspots(r,k),
 'conv':lambda r: convolution.convolution_2d(r,k),'binary':lambda r: xs.binary(r,[1,2,3]),'reclassify':lambda r: xs.reclassify(r,[5,10,30],[1,2,3]),
 'quantile':lambda r: xs.quantile(r,k=3),'equal_interval':lambda r: xs.equal_interval(r,k=3),'natural_breaks':lambda r: xs.natural_breaks(r,k=3),
 'ndvi':lambda r: xs.ndvi(r,r2),'evi':lambda r: ms.evi(r,r2,r3),'proximity':lambda r: xs.proximity(r),'allocation':lambda r: xs.allocation(r),'direction':lambda r: xs.direction(r),
 'regions':lambda r: zonal.regions(r),'a_star':lambda r: xs.a_star_search(r,(4.,0.),(0.,5.)),'perlin':lambda r: xs.perlin(r),'viewshed':lambda r: xs.viewshed(r,x=2.,y=2.),
 'zstats_xr':lambda r: zonal.stats(zz,r,return_type='xarray.DataArray'),
}
issues=[]
for dtype in (np.int8,np.uint16,np.int32,np.int64,np.uint64,np.float32,np.float64):
  for layout in ('C','F','view','ro'):
    r2=mk(dtype,'C','b2'); r3=mk(dtype,'C','b3'); zz=xr.DataArray(np.arange(H*W).reshape(H,W)//7,dims=['y','x'])
    for name,f in fns.items():
        r=mk(dtype,layout)
        snap=(r.data.copy(), r.dtype, copy.deepcopy(r.attrs), {c:r[c].data.copy() for c in r.coords}, r.dims)
        try: out=f(r)
        except Exception as e:
            issues.append((name,str(np.dtype(dtype)),layout,'EXC '+type(e).__name__+' '+str(e)[:60])); continue
        prob=[]
        if not np.array_equal(r.data.astype(float),snap[0].astype(float),equal_nan=True): prob.append('input values changed')
        if r.dtype!=snap[1] and name!='viewshed': prob.append('input dtype changed')
        if r.attrs!=snap[2]: prob.append('attrs changed')
        if any(not np.array_equal(r[c].data,snap[3][c]) for c in snap[3]): prob.append('coords changed')
        if isinstance(out,xr.DataArray):
            if np.shares_memory(out.data,r.data): prob.append('shares memory')
            if name not in('zstats_xr',):
                if out.shape!=r.shape or out.dims!=r.dims: prob.append('shape/dims')
                if set(out.coords)!=set(r.coords): prob.append('coords set %s'%sorted(out.coords))
                if name!='hotspots' and out.attrs!=snap[2]: prob.append('attrs differ')
        if prob: issues.append((name,str(np.dtype(dtype)),layout,';'.join(prob)))
import collections
c=collections.defaultdict(list)
for n,d,l,p in issues: c[(n,p)].append((d,l))
for kk,v in sorted(c.items()): print(kk, len(v), v[:4])
