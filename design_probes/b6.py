import os, itertools, numpy as np, xarray as xr, warnings, sys
warnings.simplefilter('ignore')
from xrspatial import proximity, allocation, direction
from xrspatial.pathfinding import _find_nearest_pixel
def ref(a, ys, xs, metric):
    H,W=a.shape; T=[(i,j) for i in range(H) for j in range(W) if a[i,j]!=0 and np.isfinite(a[i,j])]
    out=np.full((H,W),np.nan)
    for i in range(H):
        for j in range(W):
            best=np.inf
            for (ti,tj) in T:
                dx=xs[j]-xs[tj]; dy=ys[i]-ys[ti]
                d = np.hypot(dx,dy) if metric=='EUCLIDEAN' else abs(dx)+abs(dy)
                best=min(best,d)
            if T: out[i,j]=best
    return out
bad=0; tot=0; first=None
for (H,W) in [(3,4),(4,3),(2,5)]:
  for ysign in (1,-1):
    ys=(np.arange(H)*1.0)[::ysign]; xs=np.arange(W)*2.0   # non-square cells
    for bits in range(1, 2**(H*W)):
        a=np.array([(bits>>k)&1 for k in range(H*W)],dtype=float).reshape(H,W)
        r=xr.DataArray(a,dims=['y','x'],coords={'y':ys,'x':xs})
        for metric in ('EUCLIDEAN','MANHATTAN'):
            p=proximity(r, distance_metric=metric).data
            e=ref(a,ys,xs,metric); tot+=1
            if not np.allclose(p,e,equal_nan=True,rtol=1e-6):
                bad+=1
                if first is None: first=(H,W,ysign,metric,a.tolist(),p.tolist(),e.tolist())
print('proximity exhaustive: bad',bad,'of',tot); print(first)
# F7
d=np.zeros((3,3)); d[2,2]=1.0
print('find_nearest corner:', _find_nearest_pixel(0,0,d,np.array([0.0])))
