import numpy as np, xarray as xr, dask.array as da, warnings
warnings.simplefilter('ignore')
from xrspatial.zonal import stats, crosstab
zones = np.array([[1,1,2,2],[1,1,2,2],[3,3,3,3],[4,4,5,5]],dtype=float)
vals  = np.array([[5,6,5,7],[6,6,7,7],[5,6,7,5],[np.nan,6,7,5]],dtype=float)
zn = xr.DataArray(zones, dims=['y','x']); vn = xr.DataArray(vals, dims=['y','x'])
cn = crosstab(zn, vn)
for zc, vc in [((2,2),(4,4)), ((2,2),(2,2)), ((4,4),(2,2)), ((1,4),(4,1))]:
    zd = xr.DataArray(da.from_array(zones, chunks=zc), dims=['y','x']); vd = xr.DataArray(da.from_array(vals, chunks=vc), dims=['y','x'])
    try:
        cd = crosstab(zd, vd).compute().reset_index(drop=True)
        ok = cd.shape==cn.shape and np.allclose(cd.values.astype(float), cn.values.astype(float), equal_nan=True)
        print('crosstab zones chunks',zc,'values chunks',vc, ok)
        if not ok: print(cd); print(cn)
    except Exception as e: print('crosstab dask', zc, vc, type(e).__name__, str(e)[:150])
