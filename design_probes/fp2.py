import z3, time, sys
F = z3.Float32(); rm = z3.RNE()
a, b, n, d = z3.FPs('a b n d', F)
def chk(name, *cs):
    s = z3.Solver(); s.set('timeout', 120000); s.add(*cs)
    t=time.time(); print(name, s.check(), round(time.time()-t,2))
# sub antisymmetric (up to NaN): fl(b-a) == -fl(a-b) bitwise except NaN
x = z3.fpSub(rm,a,b); y = z3.fpSub(rm,b,a)
chk('sub-antisym', z3.Not(z3.fpIsNaN(x)), z3.Not(z3.fpEQ(y, z3.fpNeg(x))))
chk('add-comm', z3.Not(z3.fpIsNaN(z3.fpAdd(rm,a,b))), z3.Not(z3.fpEQ(z3.fpAdd(rm,a,b), z3.fpAdd(rm,b,a))))
q = z3.fpDiv(rm,n,d); q2 = z3.fpDiv(rm,z3.fpNeg(n),d)
chk('div-neg', z3.Not(z3.fpIsNaN(q)), z3.Not(z3.fpEQ(q2, z3.fpNeg(q))))
# scaling by 2: (2a-2b)/(2a+2b) == (a-b)/(a+b) when no overflow/underflow -- skip
