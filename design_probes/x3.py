import z3, time
def prove(name, hyp, goal, to=60000):
    s=z3.Solver(); s.set('timeout',to); s.add(hyp, z3.Not(goal)); t=time.time(); r=s.check(); print(name, r, round(time.time()-t,2))
    if r==z3.sat: print(s.model())
I=z3.IntSort(); R=z3.RealSort()
data = z3.Function('data', I,I,R); ker = z3.Function('ker', I,I,R)
# row partial sum: RS(i,j,a,b) = sum_{q<b} ker[a,q]*data[i-wkx+a, j-wky+q]
wkx,wky,nkx,nky = z3.Ints('wkx wky nkx nky')
RS = z3.Function('RS', I,I,I,I,R)   # i j a b
TS = z3.Function('TS', I,I,I,R)     # i j a : sum over rows < a of full rows
i,j,a,b = z3.Ints('i j a b')
ax = [z3.ForAll([i,j,a], RS(i,j,a,0)==0),
      z3.ForAll([i,j,a,b], z3.Implies(b>=0, RS(i,j,a,b+1)==RS(i,j,a,b)+ker(a,b)*data(i-wkx+a, j-wky+b))),
      z3.ForAll([i,j], TS(i,j,0)==0),
      z3.ForAll([i,j,a], z3.Implies(a>=0, TS(i,j,a+1)==TS(i,j,a)+RS(i,j,a,nky)))]
num = z3.Real('num'); ii,jj = z3.Ints('ii jj'); ci,cj = z3.Ints('ci cj')
nx,ny = z3.Ints('nx ny')
ctx = z3.And(nkx==2*wkx+1, nky==2*wky+1, wkx>=0, wky>=0, wkx<=ci, ci<nx-wkx, wky<=cj, cj<ny-wky)
iimin = ci-wkx; jjmin = cj-wky   # max(ci-wkx,0)=ci-wkx since ci>=wkx
# inner invariant: num == TS(ci,cj, ii-iimin) + RS(ci,cj, ii-iimin, jj-jjmin)
inv = lambda ii_, jj_, num_: num_ == TS(ci,cj,ii_-iimin) + RS(ci,cj,ii_-iimin, jj_-jjmin)
hyp = z3.And(ctx, *ax, iimin<=ii, ii<ci+wkx+1, jjmin<=jj, jj<cj+wky+1, inv(ii,jj,num))
iii = wkx+ii-ci; jjj = wky+jj-cj
prove('inner preserve', hyp, inv(ii, jj+1, num + ker(iii,jjj)*data(ii,jj)))
# inner exit -> outer preserve: jj == cj+wky+1  => inv(ii+1, jjmin, num)
hyp2 = z3.And(ctx, *ax, iimin<=ii, ii<ci+wkx+1, jj==cj+wky+1, inv(ii,jj,num))
prove('outer preserve', hyp2, inv(ii+1, jjmin, num))
prove('init', z3.And(ctx,*ax), inv(iimin, jjmin, z3.RealVal(0)))
prove('post', z3.And(ctx,*ax, ii==ci+wkx+1, inv(ii,jjmin,num)), num==TS(ci,cj,nkx))
