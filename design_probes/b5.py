import itertools, numpy as np, xarray as xr, warnings, sys
warnings.simplefilter('ignore')
from xrspatial import viewshed

import importlib; V = importlib.import_module("xrspatial.viewshed")
PI=np.pi
def ref(a, vr, vc, obs, tgt, ew, ns):
    H,W=a.shape; a=a.astype(float)
    vp_elev=a[vr,vc]+obs; vt = tgt if tgt>0 else 0.0
    out=np.full((H,W),-1.0); out[vr,vc]=180
    # event elevations via code's own _calc_event_elev need inrast window; recompute bilinear directly
    def corner_elev(r,c,typ):
        r1,c1=V._calculate_event_row_col(typ,r,c,vr,vc)
        if 0<=r1<H and 0<=c1<W:
            e=[a[r1,c1],a[r1,c],a[r,c1],a[r,c]]
            if any(np.isnan(x) for x in e): return a[r,c]
            return sum(e)/4.0
        return a[r,c]
    nodes={}
    for r in range(H):
        for c in range(W):
            if (r,c)==(vr,vc): continue
            ay0,ax0=V._calc_event_pos(1,r,c,vr,vc); ay2,ax2=V._calc_event_pos(-1,r,c,vr,vc)
            a0=V._calculate_angle(ax0,ay0,vc,vr); a1=V._calculate_angle(c,r,vc,vr); a2=V._calculate_angle(ax2,ay2,vc,vr)
            e0=corner_elev(r,c,1); e2=corner_elev(r,c,-1); e1=a[r,c]
            g0=V._calc_event_grad(ay0,ax0,e0,vr,vc,vp_elev,ew,ns); g2=V._calc_event_grad(ay2,ax2,e2,vr,vc,vp_elev,ew,ns)
            key,g1=V._calc_dist_n_grad(r,c,e1,vr,vc,vp_elev,ew,ns)
            _,gq=V._calc_dist_n_grad(r,c,e1+vt,vr,vc,vp_elev,ew,ns)
            nodes[(r,c)]=dict(a=(a0,a1,a2),g=(g0,g1,g2),key=key,gq=gq,e1=e1)
    for q,nq in nodes.items():
        th=nq['a'][1]; mx=-np.inf
        for n,nn in nodes.items():
            if n==q or not (nn['key']<nq['key']): continue
            a0,a1,a2=nn['a']
            # active at q's centre event: entered strictly before th, exits strictly after th (lexsort: exit<centre<enter at equal angle)
            # cells on the initial sweep line (row vr, col>vc): a1==0, a0 near 2pi: active from start until exit a2; and again from a0 to end
            if n[0]==vr and n[1]>vc:
                act = (th < a2) or (th > a0)
                A0,A1,A2 = (a0-2*PI,a1,a2) if th<a2 else (a0,a1+2*PI,a2+2*PI)
            else:
                act = (a0 < th < a2)
                A0,A1,A2=a0,a1,a2
            if not act: continue
            if not (A0<=th<=A2): continue
            g0,g1,g2=nn['g']
            if th<A1: g=g1+(g0-g1)*(A1-th)/(A1-A0)
            elif th>A1: g=g1+(g2-g1)*(th-A1)/(A2-A1)
            else: g=g1
            mx=max(mx,g)
        if mx<=nq['gq']:
            out[q]=V._get_vertical_ang(vp_elev, nq['key'], nq['e1']+vt)
    return out
def run(a,vr,vc,obs=0,tgt=0,dy=1.0,dx=1.0):
    H,W=a.shape
    r=xr.DataArray(a.astype(float),dims=['y','x'],coords={'y':np.arange(H)[::-1]*dy,'x':np.arange(W)*dx})
    got=viewshed(r,x=r.x.data[vc],y=r.y.data[vr],observer_elev=obs,target_elev=tgt).data
    ew=(r.x.data[-1]-r.x.data[0])/(W-1); ns=(r.y.data[-1]-r.y.data[0])/(H-1)
    exp=ref(a,vr,vc,obs,tgt,ew,ns)
    return got,exp
bad=0;tot=0;first=None
H=W=3
for vals in itertools.product((0,1,2),repeat=9):
    a=np.array(vals,float).reshape(H,W)
    for vr in range(H):
        for vc in range(W):
            tot+=1
            try:
                got,exp=run(a,vr,vc)
            except Exception as e:
                bad+=1
                if first is None: first=('EXC',repr(e),a.tolist(),vr,vc)
                continue
            if not np.allclose(got,exp):
                bad+=1
                if first is None: first=(a.tolist(),vr,vc,got.tolist(),exp.tolist())
    if tot>=int(sys.argv[1]): break
print('viewshed 3x3 bad',bad,'of',tot); print(first)
rng=np.random.default_rng(5); b2=0; f2=None; t2=0
for t in range(int(sys.argv[2]) if len(sys.argv)>2 else 0):
    H,W=rng.integers(2,8,2)
    a=rng.integers(0,4,(H,W)).astype(float)
    if rng.random()<0.3: a=rng.random((H,W))*3
    vr=rng.integers(0,H); vc=rng.integers(0,W)
    obs=float(rng.choice([-1,0,0,2.5])); tgt=float(rng.choice([0,0,1])); dy=float(rng.choice([1,1,2,0.5])); dx=float(rng.choice([1,1,3]))
    t2+=1
    try:
        got,exp=run(a,vr,vc,obs,tgt,dy,dx)
    except Exception as e:
        b2+=1
        if f2 is None: f2=('EXC',repr(e),a.tolist(),vr,vc,obs,tgt,dy,dx)
        continue
    if not np.allclose(got,exp):
        b2+=1
        if f2 is None: f2=(a.tolist(),vr,vc,obs,tgt,dy,dx,got.tolist(),exp.tolist())
print('viewshed random bad',b2,'of',t2); print(f2)
