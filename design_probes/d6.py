import itertools, numpy as np, xarray as xr, dask.array as da, warnings
warnings.simplefilter('ignore')
from xrspatial.zonal import stats, crosstab
zones = np.array([[1,1,2,2],[1,1,2,2],[3,3,3,3],[4,4,5,5]],dtype=float)
vals  = np.array([[5,6,5,7],[6,6,7,7],[5,6,7,5],[np.nan,6,7,5]],dtype=float)
zn = xr.DataArray(zones, dims=['y','x']); vn = xr.DataArray(vals, dims=['y','x'])
allst=['mean','max','min','sum','std','var','count']
bad=[]
for r in (1,2,3):
  for sub in itertools.combinations(allst,r):
    zd = xr.DataArray(da.from_array(zones, chunks=(2,3)), dims=['y','x']); vd = xr.DataArray(da.from_array(vals, chunks=(3,2)), dims=['y','x'])
    for zid in (None,[5,1],[2,77]):
        try:
            a=stats(zd,vd,zone_ids=zid,stats_funcs=list(sub)).compute().reset_index(drop=True); b=stats(zn,vn,zone_ids=zid,stats_funcs=list(sub))
            if list(a.columns)!=list(b.columns) or not np.allclose(a.values.astype(float),b.values.astype(float),equal_nan=True): bad.append((sub,zid,'diff',a.to_dict('list'),b.to_dict('list')))
        except Exception as e: bad.append((sub,zid,type(e).__name__,str(e)[:80]))
print(len(bad)); 
import collections; print(collections.Counter((str(b[1]),b[2]) for b in bad)); print(bad[:2])
# zone with all-NaN values in numpy vs dask; nodata
vals2=vals.copy(); vals2[3,0:2]=np.nan
for nod in (None,5,6):
    zd = xr.DataArray(da.from_array(zones, chunks=(2,2)), dims=['y','x']); vd = xr.DataArray(da.from_array(vals2, chunks=(2,2)), dims=['y','x'])
    a=stats(zd,vd,nodata_values=nod).compute().reset_index(drop=True); b=stats(zn,xr.DataArray(vals2,dims=['y','x']),nodata_values=nod)
    print('nodata',nod, np.allclose(a.values.astype(float),b.values.astype(float),equal_nan=True))
    if not np.allclose(a.values.astype(float),b.values.astype(float),equal_nan=True): print(a,b)
    ca=crosstab(zd,vd,nodata_values=nod,agg='percentage').compute().reset_index(drop=True); cb=crosstab(zn,xr.DataArray(vals2,dims=['y','x']),nodata_values=nod,agg='percentage')
    print('crosstab pct',nod, ca.shape==cb.shape and np.allclose(ca.values.astype(float),cb.values.astype(float),equal_nan=True))
