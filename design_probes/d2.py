import numpy as np, xarray as xr, dask.array as da, warnings, traceback
warnings.simplefilter('ignore')
from xrspatial import equal_interval, natural_breaks, quantile, reclassify, binary, a_star_search, perlin, generate_terrain
from xrspatial.pathfinding import _get_pixel_id
a = np.arange(20,dtype=float).reshape(4,5)
try:
    r = equal_interval(xr.DataArray(da.from_array(a, chunks=(2,2))), k=3); print('ei dask', r.data.compute())
except Exception as e:
    print('equal_interval dask raises', type(e).__name__, str(e)[:200])
print('ei numpy', equal_interval(xr.DataArray(a), k=3).data)
# natural breaks float32 rounding
b = np.array([[0.1,0.2,0.3,0.4],[0.5,0.6,0.7,0.70000001]],dtype=np.float64)
print('nb', natural_breaks(xr.DataArray(b), k=3).data)
b2 = np.array([[1.,2,3,4],[5,6,7,16777217.0]],dtype=np.float64)
print('nb2', natural_breaks(xr.DataArray(b2), k=3).data)
print('ei2', equal_interval(xr.DataArray(b), k=3).data)
print('q', quantile(xr.DataArray(b), k=3).data)
# a_star pixel id
s = xr.DataArray(np.ones((5,11)), dims=['y','x'], coords={'y':np.arange(5)*0.1, 'x':np.arange(11)*0.1})
for i in range(11):
    print(i, _get_pixel_id((s.y.data[2], s.x.data[i]), s, 'x','y'), end='; ')
print()
s2 = xr.DataArray(np.ones((5,5)), dims=['y','x'], coords={'y':np.arange(5.), 'x':np.arange(5.)})
print('nearest centre 0.6 ->', _get_pixel_id((0.6, 2.9), s2, 'x','y'))
# perlin in place
t = np.zeros((4,5),dtype=np.float32); ag = xr.DataArray(t, dims=['y','x'])
p = perlin(ag); print('perlin mutated input:', t.any(), np.shares_memory(p.data, t))
t = np.zeros((4,5)); ag = xr.DataArray(t, dims=['y','x'])
g = generate_terrain(ag); print('terrain mutated input:', t.any(), np.shares_memory(g.data, t))
