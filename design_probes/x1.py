# hand-encoded VCs for classify._cpu_bin binary search (reals, sorted bins), to calibrate z3 on quantified invariants
import z3, time
bins = z3.Function('bins', z3.IntSort(), z3.RealSort())
n = z3.Int('n'); val = z3.Real('val')
i,j = z3.Ints('i j')
sorted_ = z3.ForAll([i,j], z3.Implies(z3.And(0<=i, i<=j, j<n), bins(i) <= bins(j)))
pre = z3.And(n>=1, sorted_, val > bins(0), val <= bins(n-1))
# spec: ans = least index with bins[ans] >= val
ans = z3.Int('ans')
is_ans = lambda a: z3.And(0<=a, a<n, bins(a) >= val, z3.ForAll([i], z3.Implies(z3.And(0<=i, i<a), bins(i) < val)))
start,end,mid = z3.Ints('start end mid')
def idx(k):  # python negative index wrap
    return z3.If(k<0, k+n, k)
inv = z3.And(0<=start, end<=n-1, z3.ForAll([i], z3.Implies(z3.And(0<=i,i<start), bins(i)<val)),
             z3.ForAll([i], z3.Implies(z3.And(end<i,i<n), bins(i)>=val)), mid == (start+end)/2, start<=end+1)
def prove(name, hyp, goal):
    s=z3.Solver(); s.set('timeout',60000); s.add(hyp, z3.Not(goal)); t=time.time(); r=s.check(); print(name, r, round(time.time()-t,2))
    if r==z3.sat: print(s.model())
# init
prove('init', pre, z3.substitute(inv, (start,z3.IntVal(0)), (end,n-1), (mid,(n-1)/2)))
# the invariant must also imply start<=end is maintained until break (termination by break): show that if start<=end then one of the branches and preserved
body_pre = z3.And(pre, inv, start<=end)
# in-bounds of mid
prove('mid in bounds', body_pre, z3.And(0<=mid, mid<n))
# branch1: bins[mid] < val -> start=mid+1
ns = mid+1
prove('br1 preserve', z3.And(body_pre, bins(mid)<val), z3.substitute(inv,(start,ns),(mid,(ns+end)/2)))
# branch2: not(bins[mid]<val) and val > bins[mid-1] -> break with mid: post is_ans(mid)  (mid-1 may wrap)
prove('br2 post', z3.And(body_pre, z3.Not(bins(mid)<val), val > bins(idx(mid-1))), is_ans(mid))
# branch3: else end = mid-1
ne = mid-1
prove('br3 preserve', z3.And(body_pre, z3.Not(bins(mid)<val), z3.Not(val > bins(idx(mid-1)))), z3.substitute(inv,(end,ne),(mid,(start+ne)/2)))
# loop exit without break impossible: inv and start>end contradiction with pre
prove('no fallthrough', z3.And(pre, inv, start>end), z3.BoolVal(False))
