import numpy as np, xarray as xr, dask.array as da, warnings
warnings.simplefilter('ignore')
from xrspatial import zonal
from xrspatial.zonal import crosstab, stats, trim, crop
zones = xr.DataArray(np.array([[1,1,2,2],[1,1,2,2],[3,3,3,3]],dtype=float), dims=['y','x'])
vals  = xr.DataArray(np.array([[5,6,5,7],[6,6,7,7],[5,6,7,5]],dtype=float), dims=['y','x'])
print("full\n", crosstab(zones, vals))
print("cat_ids=[5,7]\n", crosstab(zones, vals, cat_ids=[5,7]))
print("zone_ids=[3,1]\n", crosstab(zones, vals, zone_ids=[3,1]))
print("stats zone_ids=[3,1]\n", stats(zones, vals, zone_ids=[3,1], stats_funcs=['sum','count']))
# -inf zones
z2 = zones.copy(); z2.data = z2.data.copy(); z2.data[0,0] = -np.inf
print("stats -inf zone\n", stats(z2, vals, stats_funcs=['sum','count']))
z3 = zones.copy(); z3.data = z3.data.copy(); z3.data[0,0] = np.nan
print("stats nan zone\n", stats(z3, vals, stats_funcs=['sum','count']))
# trim NaN
r = xr.DataArray(np.array([[np.nan,np.nan,np.nan],[np.nan,1.,np.nan],[np.nan,np.nan,np.nan]]), dims=['y','x'])
print("trim default", trim(r).shape, " trim values=(nan,)", trim(r, values=(np.nan,)).shape)
