import itertools, numpy as np, xarray as xr, warnings
warnings.simplefilter('ignore')
from xrspatial.experimental.polygonize import polygonize
def area2(p):  # signed doubled area
    x=p[:,0]; y=p[:,1]; return float(np.sum(x[:-1]*y[1:]-x[1:]*y[:-1]))
def inside(p, px, py):
    c=False; n=len(p)-1
    for k in range(n):
        x0,y0=p[k]; x1,y1=p[k+1]
        if (y0>py)!=(y1>py):
            xi = x0+(py-y0)*(x1-x0)/(y1-y0)
            if px<xi: c=not c
    return c
def check(a, mask, conn):
    col, polys = polygonize(xr.DataArray(a), mask=None if mask is None else xr.DataArray(mask), connectivity=conn)
    H,W=a.shape; cover=np.zeros((H,W),int); val=np.full((H,W),np.nan)
    for v,rings in zip(col,polys):
        ext=rings[0]; holes=rings[1:]
        if not np.array_equal(ext[0],ext[-1]) or area2(ext)<=0: return 'ext orientation/closure'
        for h in holes:
            if not np.array_equal(h[0],h[-1]) or area2(h)>=0: return 'hole orientation'
        for r in rings:
            d=np.abs(np.diff(r,axis=0))
            if not (((d[:,0]==0)^(d[:,1]==0)).all() and (r==np.round(r)).all()): return 'edges'
        cnt=0
        for i in range(H):
            for j in range(W):
                if inside(ext,j+.5,i+.5) and not any(inside(h,j+.5,i+.5) for h in holes):
                    cover[i,j]+=1; val[i,j]=v; cnt+=1
        ar=(area2(ext)+sum(area2(h) for h in holes))/2
        if abs(ar-cnt)>1e-9: return 'area'
    m = np.ones((H,W),bool) if mask is None else mask.astype(bool)
    if not (cover[m]==1).all(): return 'cover'
    if not (cover[~m]==0).all(): return 'masked covered'
    if not np.array_equal(val[m], a[m].astype(float)): return 'value'
    return None
bad=0;tot=0;first=None
for (H,W) in [(3,3),(2,5),(1,6),(6,1),(1,1),(3,4)]:
    for bits in range(2**(H*W)):
        a=np.array([(bits>>k)&1 for k in range(H*W)],dtype=np.int64).reshape(H,W)
        for conn in (4,8):
            tot+=1; r=check(a,None,conn)
            if r:
                bad+=1
                if first is None: first=(r,H,W,conn,a.tolist())
print('polygonize exhaustive bad',bad,'of',tot,first)
rng=np.random.default_rng(1); b2=0; f2=None
for t in range(1500):
    H,W=rng.integers(1,8,2); a=rng.integers(0,3,(H,W)); mask=(rng.random((H,W))<0.8)
    for conn in (4,8):
        for mk in (None,mask):
            for dt in (np.int64,np.float64):
                r=check(a.astype(dt),mk,conn)
                if r:
                    b2+=1
                    if f2 is None: f2=(r,conn,a.tolist(),None if mk is None else mk.tolist(),str(dt))
print('polygonize random bad',b2,f2)
