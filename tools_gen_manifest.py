"""regenerates MANIFEST.json from contracts/props.py (run with python3-vt tools_gen_manifest.py)"""
import json, sys, os
sys.path.insert(0, os.path.dirname(os.path.abspath(__file__)))
from contracts.props import PROPS
props = [json.loads(l) for l in open("properties.jsonl")]
checks, na = [], []
for p in props:
    pid = p["id"]
    P = PROPS.get(pid)
    if P is None or P.get("not_applicable"):
        na.append({"property_id": pid, "reason": (P or {}).get("not_applicable", "check not built yet in this round; see DESIGN.md section 4 for the plan")})
        continue
    checks.append({
        "property_id": pid,
        "quick_cmd": "python3-vt -m pyvc.check %s --tier quick" % pid,
        "thorough_cmd": "python3-vt -m pyvc.check %s --tier thorough" % pid,
        "evidence_file": "evidence/%s.json" % pid,
        "replay_cmd_template": "python3-vt -m pyvc.replay {path}",
        "engine": "pyvc",
        "level_claimed": {"category": P["level"], "text": P.get("level_text", P["technique"]), "design_ref": "DESIGN.md section 4, %s" % pid},
        "level_note": P.get("level_note", "; ".join(P.get("assumptions", [])) or "see evidence.assumptions"),
        "technique": P["technique"],
    })
m = {
    "version": 1,
    "setup_cmd": "python3-vt -m pyvc.setup_check",
    "hooks": {"guard": "XRSPATIAL_VERIF", "enable": "no source hooks are needed: contracts are sidecar files, the real source is re-parsed on every run; XRSPATIAL_VERIF is reserved and unused",
              "baseline_off_cmd": "cd /repo && /venv/bin/python -m pytest -ra -q -p no:cacheprovider --timeout=900 --continue-on-collection-errors",
              "source_commits": [], "add_only": True},
    "engines": [{"name": "pyvc", "path": "pyvc/", "serves_properties": [c["property_id"] for c in checks],
                 "kind_free_text": "contract-based deductive verifier built here: VC generator over the Python ast of the real /repo source (re-read on every run), sidecar contracts in contracts/, obligations discharged by z3 5.1, with /usr/bin/cvc5 1.0 as second back end for what z3 leaves unknown (cvc5 / z3 4.8 cross-check of everything in the thorough tier); bounded stand-ins run the same executable contracts natively and are labelled bounded"}],
    "checks": checks,
    "not_applicable": na,
    "notes": "exit codes: 0 held, 1 violation (VIOLATION line), 2 undecided (contract no longer attaches, no failing input found), 3 checker error. Known findings: known_findings.jsonl.",
}
json.dump(m, open("MANIFEST.json", "w"), indent=1)
print(len(checks), "checks;", len(na), "not applicable")
